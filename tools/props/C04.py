"""C04 — encode -> decode reproduces the input at the reported delay (DESIGN.md §7.C04).  PARTIAL.

Proved (Lean): the reported look-ahead (closed form, all histories, exact in ms, = CELT overlap + delay buffer),
the Princen-Bradley defect of the regenerated window (<= 2^-23), MDCT/IMDCT alias form and time-domain alias
cancellation over the reals for every frame size and input, TDAC with the real window table; clt_mdct_forward_c /
clt_mdct_backward_c (fold, rotations, N/4 complex DFT, mirror) over the reals = textbook MDCT / IMDCT + overlap-add for
every N = 4Q and overlap = 4q <= N/2, and forward -> backward on consecutive frames = identity; channel identity of the
multistream routing (the channel the encoder feeds a stream side from = the channel the decoder writes it to), for
every layout and for every channel of the surround layouts, composed with C10's routing theorem into
channel_identity_pcm (every created encoder / decoder pair).
Tied (S3): OPUS_GET_LOOKAHEAD on real encoders (single / multistream / projection, all Fs x application x channels,
also after OPUS_SET_APPLICATION) = model, exactly; clt_mdct_forward_c / clt_mdct_backward_c = Lean Float model
(1e-4), Lean fold/DFT models = textbook MDCT / IMDCT formulas of the theorems (1e-9), opus_fft_c = naive DFT (1e-4);
the copy_channel_in calls of the real
opus_multistream_encode_native = model `encoderCalls` (surround layouts + random encoder-valid layouts), exactly.
Searched (S4, implementation only): TDAC on the real MDCT code; measured delay, SNR, level, per-band energy error,
channel identity of real encoder+decoder round trips.  Every round trip of the pool stream is compared, metric by
metric, with what the unchanged tree produced for the very same configuration line (template x pool signal seed;
tools/calibration_c04.json, 16 pool seeds; VERIF_SEED picks the seed per template); a second stream re-runs the delay
grid with fresh signals against the property's own delay numbers.  `python3 tools/props/C04.py calibrate` rewrites
the calibration file on the unchanged tree — never done by the check; a template without reference values is run as
a fresh case and counted in the evidence, a missing file is an error of the check.
"""
import json, math, os, re, subprocess, sys, time
from concurrent.futures import ThreadPoolExecutor

if __name__ == '__main__':
    sys.path.insert(0, os.path.dirname(os.path.dirname(os.path.abspath(__file__))))
import common

LEAN_MODULES = ['OpusProps.C04', 'OpusModel.Delay', 'OpusModel.Mdct', 'OpusModel.DelayChannels']   # the last three: imports of the interpreted driver Driver/DelayMain.lean
GEN = ['Window', 'LayoutTables', 'MappingMatrices']   # the last two: C10's extractors (OpusProps.C10 is imported read-only)
SOURCES = ['src/opus_encoder.c', 'src/opus_decoder.c', 'src/opus_multistream_encoder.c', 'src/opus_multistream_decoder.c',
           'src/opus_projection_encoder.c', 'src/opus_projection_decoder.c', 'src/mapping_matrix.c',
           'celt/celt_encoder.c', 'celt/celt_decoder.c', 'celt/mdct.c', 'celt/mdct.h', 'celt/modes.c', 'celt/modes.h',
           'celt/static_modes_float.h', 'celt/bands.c', 'celt/kiss_fft.c', 'include/opus_defines.h']
RULE = ('look-ahead: exhaustive over kind x Fs x application x channels (+ set-application), exact; MDCT: seeded vectors '
        '(noise, sinusoid+noise, impulse trains) for all 4 shifts, forward / backward / FFT alone, relative tolerance 1e-4 (code vs '
        'model, kiss_fft vs DFT) and 1e-9 (model vs textbook definition); round trips: delay grid exhaustive over Fs x channels x application x 9 frame durations x '
        'forced mode, fidelity / channel-identity templates drawn once from the configuration space (Fs, channels, '
        'application, bandwidth, bitrate >= floor, frame duration, complexity, VBR/CVBR/CBR, sample format, signal family, '
        'stereo relation), plus 192 stereo-encoder / mono-stream templates (FORCE_CHANNELS(1) or a bitrate where the encoder picks '
        'mono) x 20..120 ms x every mode, 320 random draws over the option axes (forced channels, decoder channel count, decoder '
        'gain, FEC, mid-stream alternation of mode / bitrate / channels, signal hint; all feasible value pairs of 13 axes covered) '
        'and 50 multistream / projection templates at 2.5..60 ms; per template VERIF_SEED picks one of 16 calibrated pool signal seeds (every metric compared with '
        'the unchanged tree\'s value for the same line) and, for the delay grid, one fresh signal seed (property\'s own delay '
        'numbers only); encoder routing: surround layouts + random encoder-valid layouts with repeated / muted channels; '
        'a case is distinct by its template id')
REQUIRED_THEOREMS = ['OpusProps.C04.lookahead_eq', 'OpusProps.C04.encoder_exists_iff', 'OpusProps.C04.lookahead_any_history',
                     'OpusProps.C04.lookahead_fixed_after_first_frame', 'OpusProps.C04.lookahead_exact_ms',
                     'OpusProps.C04.lookahead_is_overlap_plus_buffer', 'OpusProps.C04.lookahead_table_matches_code',
                     'OpusProps.C04.init_fields_match_code', 'OpusProps.C04.window_power_complementary',
                     'OpusProps.C04.window_is_table', 'OpusProps.C04.window_monotone', 'OpusProps.C04.mdct_alias_form',
                     'OpusProps.C04.mdct_tdac', 'OpusProps.C04.celt_window_tdac', 'OpusProps.C04.channel_identity',
                     'OpusProps.C04.stream_side_identity', 'OpusProps.C04.surround_channel_identity',
                     'OpusProps.C04.channel_identity_pcm', 'OpusProps.C04.mdct_forward_code', 'OpusProps.C04.fft_is_dft',
                     'OpusProps.C04.mdct_backward_code', 'OpusProps.C04.mdct_code_roundtrip',
                     'OpusProps.C04.celt_code_roundtrip_window']
NOT_COVERED = [
    'SNR of the decoded signal against the delayed input (numeric; only searched: within 3 dB of the unchanged tree\'s value for the same line)',
    'per-band energy error and overall level (gain) of the decoded signal (only searched against the calibrated reference values)',
    'the measured delay of the real encoder+decoder (cross-correlation peak) equals the reported look-ahead, incl. the '
    '+-0.1 ms allowance where the SILK resamplers are involved (only searched; the proof covers the reported value)',
    'channel identity / sign / level through the real single-stream, multistream and projection codecs beyond the routing '
    'layer (stereo coding inside a stream, the projection matrices applied to audio): only searched (projection of every '
    'output channel on every input channel); the routing theorems cover which channel feeds / receives which stream side',
    'equality of the three sample formats\' fidelity (only searched; exact format equivalence is property C13)',
    'the MDCT algorithm theorems are about the real-number transcription (`forwardR`/`backwardR`) of celt/mdct.c with the FFT '
    'taken as the DFT it computes; the C functions, the kiss_fft butterflies and the Float twins of the transcription are tied '
    'numerically (1e-4 / 1e-4 / 1e-9), and float rounding of the MDCT is not formalised; overlap must be a multiple of 4 '
    '(for other values the C fold loop reads in[-1]; no CELT mode has such an overlap)',
    'quantisation (PVQ, SILK NSQ), band energy coding, resamplers, stereo prediction: not modelled at all',
]
ASSUMPTIONS = ['reference values in tools/calibration_c04.json were measured on the unchanged tree for 16 pool signal seeds per template; '
               'a round trip may deviate from the reference of the same line by the margin of each metric (3 dB SNR, 1.5 dB gain / '
               'level, 4 dB per-band energy, 0.01 ms or 0.3 sample delay offset, 0.1 cross-talk, 0.1 correlation peak) or by a '
               'quarter of the template\'s seed-to-seed spread; a signal outside the seeded generator families is not covered',
               'measured delay vs. reported look-ahead: the encoder high-pass filters its input — hp_cutoff (src/opus_encoder.c, 2nd-order, '
               'cutoff >= 60 Hz) for application VOIP, dc_reject (3 Hz) otherwise — and a high-pass has a phase lead (negative phase delay) '
               'at low frequencies.  Verified on the unchanged tree (8 kHz, CELT-only, pure tones): VOIP output leads by 11.90 / 2.77 / '
               '0.42 / 0.10 samples at 100 / 200 / 500 / 1000 Hz, the phase delay of the hp_cutoff biquad at 60 Hz predicts 11.91 / 2.77 / '
               '0.43 / 0.10; AUDIO leads by 0.42 / 0.09 / 0.00 samples (3 Hz filter).  On the seeded band-limited noise and sweeps the '
               'cross-correlation peak therefore sits up to 0.07 ms (VOIP) before the reported look-ahead; the property\'s 0.1 ms '
               'allowance (worded for the speech layer\'s resamplers) is applied to application VOIP too, CELT-only AUDIO / LOWDELAY '
               'is held to 0.5 sample (observed <= 0.12 sample)',
               'the analysis window starts 200 ms into the stream (start-up transients of the codec are excluded)']
LEVEL_TEXT = ('partial proof: kernel-checked theorems for the reported look-ahead (closed form for every creatable encoder and '
              'every set-application/encode/reset history, exact 2.5/6.5 ms, = CELT overlap + delay buffer, equal to the values '
              'regenerated from the code), for the power-complementarity of the regenerated CELT window (<= 2^-23) and for MDCT '
              'time-domain alias cancellation over the reals (alias form from the cosine orthogonality sums; overlap-add '
              'returns the input exactly for a Princen-Bradley window and to 2^-23 relative with the real table), for the algorithm '
              'of celt/mdct.c (window+fold, pre-rotation, N/4 complex DFT, post-rotation, TDAC mirror = MDCT / IMDCT + overlap-add, '
              'forward -> backward = identity, all N = 4Q and overlaps 4q <= N/2) and for channel '
              'identity of the multistream routing (encoder channel selection and decoder routing are inverse to each other; '
              'every channel of the surround layouts); the look-ahead model, the encoder routing model and a Float transcription of '
              'clt_mdct_forward_c/backward_c are tied to the code (exact / exact / 1e-4); every '
              'quantitative fidelity clause (measured delay, SNR, per-band energy, level, channel identity through the real '
              'codecs) is only searched on the implementation against reference values calibrated on the unchanged tree')
LEVEL_NOTE = ('trusted: Lean kernel; extractor for window/encoder constants; harness metrics (cross-correlation, SNR, Welch band '
              'energies) and calibration file; SILK/CELT DSP interiors are not modelled — a change there is caught only by the '
              'witness search (testing)')
TECHNIQUE = 'Lean 4 theorems (delay arithmetic, window table by kernel evaluation, TDAC over the reals, routing identity) + differential tie + calibrated witness search'

CAL_PATH = os.path.join(common.VERIF, 'tools', 'calibration_c04.json')
APPS = [2048, 2049, 2051]
RATES = [8000, 12000, 16000, 24000, 48000]
FRAMES_X10 = [25, 50, 100, 200, 400, 600, 800, 1000, 1200]          # frame duration in units of 0.1 ms
BWMAX = {8000: 1, 12000: 2, 16000: 3, 24000: 4, 48000: 5}
DESIGN_SEED = 20260929
POOL_LIMIT = 1 << 30     # pool signal seeds are <= POOL_LIMIT, fresh ones above it
SHARP = (3, 1)       # families with a sharp, unique autocorrelation peak (noise, sweep): the delay is measurable


# ------------------------------------------------------------------ templates

def tid(t):
    return '%s/%d/%d/%d/bw%d/%d/f%d/c%d/v%d/s%d/m%d/g%d/st%d' % (
        t['kind'], t['Fs'], t['ch'], t['app'], t['bw'], t['bitrate'], t['frame'], t['cplx'], t['vbr'], t['fmt'],
        t['force'], t['family'], t['stereo']) + ('/a%d' % t['aux'] if t.get('aux') else '')


def cfg_line(t, sigseed):
    return 'rt %s %d %d %d %d %d %d %d %d %d %d %d %d %d %d' % (
        t['kind'], t['Fs'], t['ch'], t['app'], t['bw'], t['bitrate'], t['frame'], t['cplx'], t['vbr'], t['fmt'],
        t['force'], t['family'], t['stereo'], sigseed, t.get('aux', 0))


def aux_of(fc=0, dch=0, gain=0, fec=0, alt=0, sig=0):
    """Option digits of the harness line (see harness/c04_roundtrip.c): forced channels, decoder channels, decoder
    gain, in-band FEC, mid-stream alternation, signal hint."""
    return fc + 10 * dch + 100 * gain + 1000 * fec + 10000 * alt + 100000 * sig


def aux_digits(t):
    a = t.get('aux', 0)
    return {'fc': a % 10, 'dch': a // 10 % 10, 'gain': a // 100 % 10, 'fec': a // 1000 % 10, 'alt': a // 10000 % 10,
            'sig': a // 100000 % 10}


def bitrate_floor(Fs, frame, ch):
    """Per-mode floor of the quantifier: at least 20 payload bytes per frame and 12 kb/s, x1.5 for stereo."""
    fps = Fs / frame
    return int(max(12000, 160 * fps) * (1.5 if ch == 2 else 1))


def delay_templates():
    """Exhaustive delay grid: Fs x channels x application x frame duration x forced mode, high bitrate."""
    out = []
    for Fs in RATES:
        for ch in (1, 2):
            for app in APPS:
                for fx in FRAMES_X10:
                    for force in (0, 1, 2, 3):
                        if app == 2051 and force != 0:
                            continue
                        if force == 1 and fx < 100:
                            continue      # SILK has no frames shorter than 10 ms
                        if force == 2 and (Fs < 24000 or fx < 100):
                            continue      # hybrid needs SWB/FB and >= 10 ms
                        k = len(out)
                        silkish = force in (1, 2)
                        # forced SILK-only: VBR/CVBR only and a rate inside SILK's range (see report: SILK-only CBR far
                        # above the SILK rate range produces garbage on the unchanged tree; FORCE_MODE is a private ctl)
                        br = (64000 if ch == 1 else 96000) if force == 1 else (96000 if ch == 1 else 160000)
                        out.append(dict(kind='single', Fs=Fs, ch=ch, app=app, bw=0, bitrate=br,
                                        frame=Fs * fx // 10000, cplx=(10, 5, 0)[k % 3], vbr=(1 + k % 2) if force == 1 else k % 3,
                                        fmt=(k // 3) % 3, force=force, family=3 if silkish else SHARP[k % 2],
                                        stereo=0 if ch == 1 else (1 if silkish else (k // 2) % 4), cls='delay'))
    for kind, chans in (('ms1', (3, 6)), ('ms255', (4,)), ('proj', (4,))):
        for Fs in (48000, 16000):
            for ch in chans:
                for app in APPS:
                    k = len(out)
                    out.append(dict(kind=kind, Fs=Fs, ch=ch, app=app, bw=0, bitrate=96000 * ch, frame=Fs // 50, cplx=10 - 5 * (k % 3),
                                    vbr=k % 3, fmt=k % 3, force=0, family=SHARP[k % 2], stereo=0, cls='delay'))
    return out


def fidelity_templates(n, seed):
    """n templates drawn from the configuration space of the property's quantifier."""
    r = common.SplitMix(seed)
    out, seen = [], set()
    frames_w = [25, 50, 100, 100, 200, 200, 200, 200, 400, 600, 800, 1000, 1200]
    while len(out) < n:
        Fs = r.choice(RATES); ch = r.choice([1, 2]); app = r.choice(APPS)
        fx = r.choice(frames_w); frame = Fs * fx // 10000
        bw = 0 if r.below(3) else 1 + r.below(BWMAX[Fs])
        per_ch = r.choice([16000, 24000, 32000, 48000, 64000, 96000, 128000])
        bitrate = int(per_ch * (1.6 if ch == 2 else 1))
        if bitrate < bitrate_floor(Fs, frame, ch):
            continue
        t = dict(kind='single', Fs=Fs, ch=ch, app=app, bw=bw, bitrate=bitrate, frame=frame, cplx=r.choice([0, 2, 5, 8, 10]),
                 vbr=r.below(3), fmt=r.below(3), force=0, family=r.below(5), stereo=(r.below(4) if ch == 2 else 0), cls='fid')
        if tid(t) in seen:
            continue
        seen.add(tid(t)); out.append(t)
    return out


def channel_templates(thorough):
    """Channel identity: independent signals per channel at a bitrate where the channels are coded separately."""
    out = []
    k = 0
    for Fs in RATES:
        for app in APPS:
            for fmt in (0, 1, 2):
                for stereo in (0, 1, 2, 3):
                    k += 1
                    out.append(dict(kind='single', Fs=Fs, ch=2, app=app, bw=0, bitrate=128000, frame=Fs // 50 if k % 4 else Fs // 100,
                                    cplx=(10, 6, 3)[k % 3], vbr=k % 3, fmt=fmt, force=0, family=k % 5, stereo=stereo, cls='chan'))
    ms = [('ms0', 2), ('ms1', 1), ('ms1', 2), ('ms1', 3), ('ms1', 4), ('ms1', 5), ('ms1', 6), ('ms1', 7), ('ms1', 8),
          ('ms255', 3), ('ms255', 5), ('proj', 4), ('proj', 9), ('proj', 6)]
    if thorough:
        ms += [('proj', 16), ('proj', 11), ('proj', 18), ('ms255', 8)]
    for kind, ch in ms:
        for Fs in ((48000, 24000, 16000) if thorough else (48000, 16000)):
            for app in ((2049, 2048, 2051) if thorough else (2049, 2051)):
                k += 1
                out.append(dict(kind=kind, Fs=Fs, ch=ch, app=app, bw=0, bitrate=80000 * ch, frame=Fs // 50, cplx=(10, 5)[k % 2],
                                vbr=k % 3, fmt=k % 3, force=0, family=k % 5, stereo=0, cls='chan'))
    return out


def valid_forces(Fs, app, fx):
    out = [0]
    if app != 2051:
        out.append(3)
        if fx >= 100:
            out.append(1)
            if Fs >= 24000:
                out.append(2)
    return out


def mono_templates():
    """A stereo encoder coding a mono stream (OPUS_SET_FORCE_CHANNELS(1), or a bitrate at which the encoder chooses
    mono itself) x every frame duration that goes through the multi-frame path x every mode.  Dual-mono input (the
    down-mix is lossless) so that the SNR at the reported delay is meaningful."""
    out = []
    for Fs in (48000, 16000):
        for app in APPS:
            for force in valid_forces(Fs, app, 200):
                for fx in (200, 400, 600, 800, 1000, 1200):
                    for trig in ('forced', 'low'):
                        k = len(out)
                        br = ((32000 if force == 1 else 48000) if trig == 'forced' else (14000, 12000, 16000)[k % 3])
                        out.append(dict(kind='single', Fs=Fs, ch=2, app=app, bw=0, bitrate=br, frame=Fs * fx // 10000,
                                        cplx=(10, 5, 0)[k % 3], vbr=1 + k % 2 if force == 1 else k % 3, fmt=(k // 2) % 3, force=force,
                                        family=k % 5, stereo=1 if k % 8 == 7 else 4, aux=aux_of(fc=1) if trig == 'forced' else 0,
                                        cls='mono'))
    return out


def axes_templates(n, seed):
    """Sparse covering of the option axes the other classes hold fixed (forced channels, decoder channel count != the
    encoder's, decoder gain, in-band FEC, mid-stream alternation of mode / bitrate / forced channels, signal hint)
    against each other and against Fs, channels, application, frame duration, forced mode, rate control, sample format
    and low bitrates: n random draws, every axis value uniform."""
    r = common.SplitMix(seed)
    out, seen = [], set()
    while len(out) < n:
        Fs = r.choice(RATES); ch = r.choice([1, 2]); app = r.choice(APPS)
        fx = r.choice([25, 50, 100, 200, 200, 400, 600, 800, 1000, 1200]); frame = Fs * fx // 10000
        force = r.choice(valid_forces(Fs, app, fx))
        per_ch = r.choice([10000, 14000, 20000, 32000, 64000, 96000])
        bitrate = int(per_ch * (1.6 if ch == 2 else 1))
        vbr = r.below(3)
        if force == 1:
            vbr = 1 + r.below(2); bitrate = min(bitrate, 64000 * ch)
        fc = r.below(3) if ch == 2 else 0
        dch = r.choice([0, 3 - ch, 0])
        alt = r.choice([0, 0, 1, 2, 3])
        if alt == 1 and (app == 2051 or fx < 100):
            alt = 0
        if alt == 3 and ch == 1:
            alt = 2
        if alt == 3:
            fc = 0
        monoish = ch == 2 and (fc == 1 or alt == 3 or per_ch <= 14000 or dch == 1)
        t = dict(kind='single', Fs=Fs, ch=ch, app=app, bw=0, bitrate=bitrate, frame=frame, cplx=r.choice([0, 3, 6, 10]), vbr=vbr,
                 fmt=r.below(3), force=force, family=r.below(5),
                 stereo=0 if ch == 1 else (r.choice([4, 4, 1]) if monoish else r.below(5)),
                 aux=aux_of(fc=fc, dch=dch, gain=r.below(3), fec=r.below(3), alt=alt, sig=r.below(3)), cls='axes')
        if tid(t) in seen:
            continue
        seen.add(tid(t)); out.append(t)
    return out


def msframe_templates():
    """Multistream / projection codecs at frame durations other than 20 ms, with decoder gain and FEC."""
    out = []
    for kind, ch in (('ms1', 6), ('ms1', 3), ('ms255', 4), ('proj', 4), ('ms0', 2)):
        for Fs in (48000, 16000):
            for fx in (25, 50, 100, 400, 600):
                k = len(out)
                out.append(dict(kind=kind, Fs=Fs, ch=ch, app=APPS[k % 3], bw=0, bitrate=(64000, 96000)[k % 2] * ch, frame=Fs * fx // 10000,
                                cplx=(10, 5, 2)[k % 3], vbr=k % 3, fmt=(k // 3) % 3, force=0, family=(0, 3, 1, 2, 4)[k % 5], stereo=0,
                                aux=aux_of(gain=k % 3, fec=(k // 3) % 3), cls='msfr'))
    return out


AXES_SEED = 20260930
PAIR_AXES = ('Fs', 'ch', 'app', 'fx', 'force', 'vbr', 'fmt', 'fc', 'dch', 'gain', 'fec', 'alt', 'sig')


def pair_coverage(ts):
    """Fraction of value pairs of two different axes, among those any template could show, that some template shows
    (computed over the single-stream templates)."""
    rows = []
    for t in ts:
        if t['kind'] != 'single':
            continue
        d = dict(aux_digits(t)); d.update(Fs=t['Fs'], ch=t['ch'], app=t['app'], fx=t['frame'] * 10000 // t['Fs'], force=t['force'],
                                          vbr=t['vbr'], fmt=t['fmt'])
        rows.append(d)
    vals = {a: sorted({r[a] for r in rows}) for a in PAIR_AXES}
    infeasible = lambda a, va, b, vb: (
        (a == 'ch' and va == 1 and ((b == 'fc' and vb) or (b == 'dch' and vb == 1) or (b == 'alt' and vb == 3))) or
        (a == 'ch' and va == 2 and b == 'dch' and vb == 2) or
        (a == 'app' and va == 2051 and ((b == 'force' and vb) or (b == 'alt' and vb == 1))) or
        (a == 'fx' and va < 100 and ((b == 'force' and vb in (1, 2)) or (b == 'alt' and vb == 1))) or
        (a == 'Fs' and va < 24000 and b == 'force' and vb == 2) or
        (a == 'force' and va == 1 and b == 'vbr' and vb == 0) or
        (a == 'fc' and va and b == 'alt' and vb == 3) or
        (a == 'dch' and va == 2 and ((b == 'fc' and vb) or (b == 'alt' and vb == 3))))
    have = set()
    for r in rows:
        for i, a in enumerate(PAIR_AXES):
            for b in PAIR_AXES[i + 1:]:
                have.add((a, r[a], b, r[b]))
    want = [(a, va, b, vb) for i, a in enumerate(PAIR_AXES) for b in PAIR_AXES[i + 1:] for va in vals[a] for vb in vals[b]
            if not infeasible(a, va, b, vb) and not infeasible(b, vb, a, va)]
    missing = [w for w in want if w not in have]
    return {'pairs': len(want), 'covered': len(want) - len(missing), 'missing': ['%s=%s x %s=%s' % m for m in missing[:12]]}


def all_templates(tier):
    thorough = tier == 'thorough'
    ts = delay_templates() + fidelity_templates(1500 if thorough else 260, DESIGN_SEED) + channel_templates(thorough)
    ts += mono_templates() + axes_templates(320, AXES_SEED) + msframe_templates()
    seen, out = set(), []
    for t in ts:
        if tid(t) not in seen:
            seen.add(tid(t)); out.append(t)
    return out


# ------------------------------------------------------------------ running the harness

def run_rt(h, lines, workers=8):
    """Feed configuration lines to `h rt` in parallel shards; returns {line: output}."""
    if not lines:
        return {}
    shards = [lines[i::workers] for i in range(workers)]
    shards = [s for s in shards if s]

    def one(s):
        p = subprocess.run([h, 'rt'], input='\n'.join(s) + '\n', stdout=subprocess.PIPE, stderr=subprocess.PIPE, text=True)
        res, cur = {}, None
        for l in p.stdout.split('\n'):
            if l.startswith('I '):
                cur = l[2:]
            elif l.startswith('O ') and cur is not None:
                res[cur] = l[2:]; cur = None
        if cur is not None:
            res[cur] = 'CRASH rc=%d %s' % (p.returncode, p.stderr[-300:].replace('\n', ' '))
        for l in s:
            res.setdefault(l, 'CRASH rc=%d (no output)' % p.returncode)
        return res
    out = {}
    with ThreadPoolExecutor(max_workers=len(shards)) as ex:
        for r in ex.map(one, shards):
            out.update(r)
    return out


def parse_out(o):
    """'OK la=.. modes=a/b/c bw=.. kbps=.. | c0 snr=.. gain=.. dly=.. pk=.. lvl=.. bands=.. [row=..] [ls=..] | c1 ...'"""
    if not o.startswith('OK '):
        return None
    parts = o.split(' | ')
    head = dict(kv.split('=') for kv in parts[0].split()[1:])
    m = {'la': int(head['la']), 'modes': [int(x) for x in head['modes'].split('/')], 'bw': int(head['bw']),
         'kbps': float(head['kbps']), 'ch': []}
    for p in parts[1:]:
        f = dict(kv.split('=', 1) for kv in p.split()[1:])
        c = {'snr': float(f['snr']), 'gain': float(f['gain']), 'dly': float(f['dly']), 'pk': float(f['pk']), 'lvl': float(f['lvl']),
             'bands': [None if b == '-' else float(b) for b in f['bands'].split(',')]}
        if 'row' in f:
            c['row'] = [float(x) for x in f['row'].split(',')]
        m['ch'].append(c)
    return m


def chan_family(t, j):
    if j == 0 or (t['ch'] == 2 and t['stereo'] != 0):
        return t['family']
    return (t['family'] + j) % 5


def metrics(t, m):
    """Scalar metrics of one round trip; every one has a calibrated reference value per (template, pool seed)."""
    chs = m['ch']
    Fs = t['Fs']
    out = {
        'snr_min': min(c['snr'] for c in chs),
        'pk_min': min(c['pk'] for c in chs),
        'lvl_abs': max(abs(c['lvl']) for c in chs),
        'band_abs': max([abs(b) for c in chs for b in c['bands'] if b is not None] or [0.0]),
        'gain_min_db': min(20 * math.log10(c['gain']) if c['gain'] > 1e-3 else -60.0 for c in chs),
        'gain_max_db': max(20 * math.log10(c['gain']) if c['gain'] > 1e-3 else -60.0 for c in chs),
    }
    # cross-correlation peak position; periodic signals (multitone, harmonic) have no unique peak, so only channels
    # carrying a noise / sweep signal are used (channel j carries family (family + j) % 5 unless it is
    # derived from channel 0 by a stereo relation).  Signed offsets from the reported look-ahead, in ms.
    lfe = t['ch'] - 1 if (t['kind'] == 'ms1' and t['ch'] >= 6) else -1     # the LFE channel is low-passed: no sharp peak
    same = len(chs) == t['ch']                     # decoder channel count = encoder's
    if same:
        sharp = [c for j, c in enumerate(chs) if chan_family(t, j) in SHARP and j != lfe]
    elif len(chs) == 1:                            # mono decoder of a stereo stream: the down-mix of both inputs
        sharp = chs if all(chan_family(t, j) in SHARP for j in range(t['ch'])) else []
    else:                                          # stereo decoder of a mono stream: both outputs carry input 0
        sharp = chs if t['family'] in SHARP else []
    if sharp and all(c['pk'] > 0.5 for c in sharp):
        offs = [(c['dly'] - m['la']) * 1000.0 / Fs for c in sharp]
        out['dly_max_ms'] = max(offs)
        out['dly_min_ms'] = min(offs)
    if t['stereo'] == 0 and len(chs) > 1 and same:
        out['cross_max'] = max(abs(c['row'][j]) for i, c in enumerate(chs) for j in range(len(chs)) if j != i)
    return out


def dly_err_ms(mt):
    return max(abs(mt['dly_max_ms']), abs(mt['dly_min_ms'])) if 'dly_max_ms' in mt else None


# Metrics bounded from below (all others from above), and the margin by which a round trip may fall short of the
# value the unchanged tree produced for the very same configuration line (same template, same signal seed).
LOWER = ('snr_min', 'pk_min', 'gain_min_db', 'dly_min_ms')
MARGIN = {'snr_min': 3.0, 'pk_min': 0.1, 'gain_min_db': 1.5, 'gain_max_db': 1.5, 'lvl_abs': 1.5, 'band_abs': 4.0,
          'dly_max_ms': 0.01, 'dly_min_ms': 0.01, 'cross_max': 0.1}
TDAC_TOL = 1e-5            # single-precision MDCT round-off on the unchanged tree: 6e-7
PRIORITY = ['round-trip', 'dly_err_ms', 'dly_max_ms', 'dly_min_ms', 'cross_max', 'snr_min', 'gain_min_db', 'gain_max_db',
            'pk_min', 'lvl_abs', 'band_abs']     # order in which violated metrics are reported
SPREAD_FRACTION = 0.25     # ... or this fraction of the template's seed-to-seed spread, whichever is larger


def margin_of(t, k, refs):
    mg = MARGIN[k]
    if k.startswith('dly_'):
        mg = max(mg, 0.3 * 1000.0 / t['Fs'])          # 0.3 sample at low rates, 0.01 ms (0.48 sample) at 48 kHz
    vs = [v for v in refs if v is not None]
    return max(mg, SPREAD_FRACTION * (max(vs) - min(vs))) if vs else mg


def uses_silk(m):
    return m['modes'][0] + m['modes'][1] > 0


def delay_limit_ms(t, m):
    """The property's own number: exact (0.5 sample slack of the peak estimator) for CELT-only coding; +-0.1 ms where
    the speech layer / its resamplers are involved.  The VOIP application's adaptive high-pass (hp_cutoff,
    src/opus_encoder.c) gives a signal-dependent phase lead of up to 0.07 ms on the seeded noise on the unchanged tree,
    so the 0.1 ms allowance is applied to application VOIP too."""
    half = 0.5 * 1000.0 / t['Fs']
    return half if (t['app'] != 2048 and not uses_silk(m)) else 0.1 + half


def universal_checks(t, m, mt, need_peak):
    """Bounds that do not come from calibration: the property's own numbers (single-stream delay grid)."""
    bad = []
    if t['cls'] == 'delay' and t['kind'] == 'single':
        lim = delay_limit_ms(t, m)
        e = dly_err_ms(mt)
        if e is None:
            if need_peak:
                bad.append(('dly_err_ms', 'no correlation peak (pk <= 0.5)', 'a measurable delay (the unchanged tree gives one for this line)'))
        elif e > lim:
            bad.append(('dly_err_ms', e, '<= %.4f ms (property: exact, +-0.1 ms with SILK / VOIP high-pass; 0.5 sample estimator slack)' % lim))
    return bad


def load_cal():
    """The committed calibration; the check only ever reads it."""
    if not os.path.exists(CAL_PATH):
        raise RuntimeError('%s is missing: the round-trip oracle has no reference values (regenerate with '
                           '`python3 tools/props/C04.py calibrate` on the unchanged tree)' % CAL_PATH)
    cal = json.load(open(CAL_PATH))
    cal['_idx'] = {s: i for i, s in enumerate(cal['seeds'])}
    return cal


def check_case(t, sigseed, o, cal):
    """Returns (violations, metrics, status): violations = list of (metric, observed, bound-description);
    status = 'ref' (compared with the unchanged tree's values for this very line), 'universal' (fresh signal or
    template without calibration: only the property's own numbers apply)."""
    m = parse_out(o)
    if m is None:
        return [('round-trip', o, 'encode and decode succeed')], None, 'failed'
    mt = metrics(t, m)
    ref = cal.get('ref', {}).get(tid(t))
    i = cal.get('_idx', {}).get(sigseed)
    if ref is None or i is None:
        return universal_checks(t, m, mt, False), mt, 'universal'
    bad = universal_checks(t, m, mt, ref.get('dly_max_ms', [None] * (i + 1))[i] is not None)
    for k, refs in ref.items():
        r = refs[i]
        if r is None:
            continue
        if k not in mt:
            if not any(b[0] == 'dly_err_ms' for b in bad):
                bad.append((k, 'not measurable', 'measurable (%.3f on the unchanged tree)' % r))
            continue
        v = mt[k]; mg = margin_of(t, k, refs)
        if k in LOWER:
            if v < r - mg:
                bad.append((k, v, '>= %.3f (unchanged tree: %.3f, margin %.3f)' % (r - mg, r, mg)))
        elif v > r + mg:
            bad.append((k, v, '<= %.3f (unchanged tree: %.3f, margin %.3f)' % (r + mg, r, mg)))
    bad.sort(key=lambda b: PRIORITY.index(b[0]) if b[0] in PRIORITY else len(PRIORITY))
    return bad, mt, 'ref'


# ------------------------------------------------------------------ ties

def lean_tie(ctx, name, stream_path, direct=False):
    """Run Driver/DelayMain.lean (interpreted, no registration in Driver/Main.lean) on a harness stream."""
    res = common.TieResult(name)
    cmd = ['lake', 'env', 'lean', '--run', 'Driver/DelayMain.lean'] + (['direct'] if direct else [])
    with open(stream_path) as f:
        p = subprocess.run(cmd, cwd=common.LEAN, stdin=f, stdout=subprocess.PIPE, stderr=subprocess.STDOUT, text=True, timeout=3000)
    cur = None
    for line in p.stdout.split('\n'):
        if line.startswith('MISMATCH'):
            cur = {}; res.mismatches.append(cur)
        elif cur is not None and line.startswith('  I '):
            cur['input'] = line[4:]
        elif cur is not None and line.startswith('  impl:'):
            cur['impl'] = line[7:].strip()
        elif cur is not None and line.startswith('  model:'):
            cur['model'] = line[8:].strip(); cur = None
        elif line.startswith('SAMPLE '):
            res.samples.append(line[7:])
        elif line.startswith('DIST '):
            k, n = line[5:].rsplit(' ', 1); res.dist[k] = int(n)
        elif line.startswith('# '):
            res.notes.append(line[2:])
        elif line.startswith('SUMMARY'):
            mm = re.match(r'SUMMARY cases=(\d+) mismatches=(\d+)', line)
            res.cases = int(mm.group(1)); res.n_mismatch = int(mm.group(2))
    if res.cases == 0:
        res.error = 'no cases compared (lean output: %s)' % p.stdout[-1500:]
    return res


_state = {}


def harness(ctx):
    if 'h' not in _state:
        _state['h'] = ctx.harness('c04_roundtrip', ['c04_roundtrip.c'], variant='plain', opt='-O2')
    return _state['h']


def ties(ctx):
    h = harness(ctx)
    out = []
    p1 = os.path.join(common.scratch(), 'c04_lookahead.txt')
    rc, txt = common.sh([h, 'lookahead'])
    open(p1, 'w').write(txt)
    out.append(lean_tie(ctx, 'delay-lookahead', p1))
    p2 = os.path.join(common.scratch(), 'c04_mdct.txt')
    rc, txt = common.sh([h, 'mdct', str(ctx.seed), '3' if ctx.quick else '12'])
    open(p2, 'w').write(txt)
    _state['tdac'] = [l for l in txt.split('\n') if l.startswith('T tdac')]
    out.append(lean_tie(ctx, 'mdct', p2, direct=not ctx.quick))
    p3 = os.path.join(common.scratch(), 'c04_encroute.txt')
    rc, txt = common.sh([h, 'encroute', str(ctx.seed), '200' if ctx.quick else '2000'])
    open(p3, 'w').write(txt)
    out.append(lean_tie(ctx, 'encoder-routing', p3))
    return out


def classify(ctx, tie, mm):
    # A disagreement of the look-ahead table or of the MDCT with its model is not by itself a failing input of
    # "decode(encode(x)) = x delayed by the reported look-ahead": the search below measures that on the real codec.
    if tie.name != 'encoder-routing':
        return None
    # Encoder-side routing: the model says which input channel feeds which stream side.  If the real encoder takes a
    # stream side from a channel whose mapping byte designates a *different* side, the decoder (which routes by the
    # mapping byte, property C10) returns that audio on another channel: a channel swap, on this very layout.
    try:
        f = mm['input'].split()
        mapping = [int(f[5][1 + 2 * i:3 + 2 * i], 16) for i in range(int(f[2]))]
        calls = lambda txt: [int(tok[tok.index('c') + 1:]) for tok in txt.split()]
        exp, obs = calls(mm['model']), calls(mm['impl'])
        if len(exp) != len(obs):
            return None
        for i, (a, b) in enumerate(zip(exp, obs)):
            if a != b and not (0 <= b < len(mapping) and 0 <= a < len(mapping) and mapping[a] == mapping[b]):
                return {'suite': 'encoder-routing', 'input': mm['input'],
                        'expected': 'copy-in call %d of the stream loop reads input channel %d (mapping byte %s): %s' % (
                            i, a, mapping[a] if 0 <= a < len(mapping) else '?', mm['model']),
                        'observed': 'it reads channel %d (mapping byte %s): %s' % (b, mapping[b] if 0 <= b < len(mapping) else '?', mm['impl']),
                        'why': 'the multistream encoder feeds a stream side from a channel that the decoder does not route that '
                               'side back to: channels are swapped for this layout (replay: <harness c04_roundtrip> encroute %d %s)'
                               % (ctx.seed, '200' if ctx.quick else '2000')}
    except (KeyError, ValueError, IndexError):
        pass
    return None


# ------------------------------------------------------------------ witness search

def search(ctx):
    t0 = time.time()
    h = harness(ctx)
    wit, samples = [], []
    cases = 0
    # (ii) TDAC on the real MDCT code
    tl = _state.get('tdac')
    if tl is None:
        rc, txt = common.sh([h, 'mdct', str(ctx.seed), '3' if ctx.quick else '12'])
        tl = [l for l in txt.split('\n') if l.startswith('T tdac')]
    worst_tdac = 0.0
    for l in tl:
        mm = re.search(r'shift=(\d+) case=(\d+) frames=(\d+) relerr=(\S+)', l)
        cases += 1
        e = float(mm.group(4))
        worst_tdac = max(worst_tdac, e)
        if not (e <= TDAC_TOL):
            wit.append({'suite': 'mdct-tdac', 'input': 'c04_roundtrip mdct %d %s  (%s)' % (ctx.seed, '3' if ctx.quick else '12', l),
                        'expected': 'forward then backward MDCT with overlap-add reproduces the input within %g relative' % TDAC_TOL,
                        'observed': 'relative error %s' % mm.group(4),
                        'why': 'clt_mdct_forward_c / clt_mdct_backward_c no longer cancel their aliases (TDAC broken on the real code)'})
    # (iii)-(v) round trips.  Two streams:
    #   pool:  every template with one of the calibrated signal seeds (chosen by VERIF_SEED); every metric is compared
    #          with what the unchanged tree produced for the very same line (tools/calibration_c04.json)
    #   fresh: the delay grid once more with a signal drawn from VERIF_SEED; only the property's own delay numbers apply
    cal = load_cal()
    ts = all_templates(ctx.tier)
    rng = common.SplitMix(ctx.seed * 1000003 + 17)
    K = len(cal['seeds'])
    jobs, uncal = [], 0
    for t in ts:
        if tid(t) in cal['ref']:
            jobs.append((t, cal['seeds'][rng.below(K)], 'pool'))
        else:
            uncal += 1                      # no reference values: not a violation; run as a fresh case
            jobs.append((t, POOL_LIMIT + 1 + rng.below(1 << 30), 'fresh'))
    for t in ts:
        if t['cls'] == 'delay' and t['kind'] == 'single':
            jobs.append((t, POOL_LIMIT + 1 + rng.below(1 << 30), 'fresh'))
    lines = [cfg_line(t, s) for t, s, _ in jobs]
    res = run_rt(h, lines)
    nbad = 0
    worst, status, unmeasurable = {}, {}, 0
    for (t, s, stream), line in zip(jobs, lines):
        o = res.get(line, 'CRASH (no output)')
        cases += 1
        bad, mt, st = check_case(t, s, o, cal)
        status[stream + '/' + st] = status.get(stream + '/' + st, 0) + 1
        if mt:
            for k, v in mt.items():
                worst[t['cls'] + '.' + k] = (min if k in LOWER else max)(worst.get(t['cls'] + '.' + k, v), v)
            if stream == 'fresh' and t['cls'] == 'delay' and 'dly_max_ms' not in mt:
                unmeasurable += 1
        if len(samples) < 3 and not bad and cases % 211 == 0:
            samples.append('%s => %s' % (line, o[:200]))
        if bad:
            nbad += 1
            if len(wit) < 12:
                k, v, want = bad[0]
                wit.append({'suite': 'roundtrip-' + t['cls'], 'input': line,
                            'expected': '%s %s' % (k, want), 'observed': '%s = %s ; all violated: %s ; harness: %s' % (
                                k, v if isinstance(v, str) else '%.4f' % v, [(a, (b if isinstance(b, str) else round(b, 4))) for a, b, _ in bad], o[:600]),
                            'why': 'decode(encode(x)) does not reproduce x at the reported delay as the unchanged tree does for the '
                                   'same line (replay: echo "%s" | <harness c04_roundtrip> rt)' % line})
    return {'cases': cases, 'distinct': len(ts) + len(tl), 'seconds': round(time.time() - t0, 1),
            'oracle': 'TDAC of the real MDCT (<=1e-5); per round trip: measured delay = reported look-ahead (0.5 sample for CELT-only, '
                      '+-0.1 ms with SILK / VOIP high-pass), and SNR, correlation peak, level, per-band energy error, channel gain/sign, '
                      'cross-talk, signed delay offset within a margin of the values the unchanged tree gave for the same line '
                      '(margins: %s, or %.2f x the template\'s seed-to-seed spread)' % (MARGIN, SPREAD_FRACTION),
            'templates': {c: sum(1 for t in ts if t['cls'] == c) for c in ('delay', 'fid', 'chan', 'mono', 'axes', 'msfr')},
            'option_axes_pair_coverage': pair_coverage(ts),
            'calibration': {'file': os.path.relpath(CAL_PATH, common.VERIF), 'pool_seeds': K, 'repo_tree_hash': cal.get('repo_tree_hash'),
                            'templates_without_reference_skipped': uncal},
            'streams': status, 'fresh_delay_cases_without_sharp_peak': unmeasurable,
            'worst_tdac_relerr': worst_tdac, 'violating_cases': nbad,
            'extremes': {k: round(v, 4) for k, v in sorted(worst.items())},
            'samples': samples, 'witnesses': wit}


def replay(ctx, obj):
    """Re-run exactly the failing configuration line(s) of a replay file against the current /repo."""
    h = harness(ctx)
    cal = load_cal()
    ts = {tid(t): t for t in all_templates('thorough')}
    ts.update({tid(t): t for t in all_templates('quick')})
    lines = [w['input'] for w in [obj] + obj.get('other_witnesses', []) if str(w.get('input', '')).startswith('rt ')]
    if not lines:
        print('replay: no round-trip line in %s; re-running the check' % obj.get('kind'))
        os.execv(sys.executable, [sys.executable, os.path.join(common.VERIF, 'tools', 'check.py'), ctx.prop, '--tier', obj.get('tier', 'quick')])
    res = run_rt(h, lines, workers=4)
    rc = 0
    for line in lines:
        f = line.split()
        t = None
        for cand in ts.values():
            if cfg_line(cand, int(f[14])) == line:
                t = cand; break
        o = res[line]
        print('I', line); print('O', o)
        if t is None:
            print('  (template not in the design; metrics only)'); continue
        bad, mt, st = check_case(t, int(f[14]), o, cal)
        print('  compared with: %s' % ('the unchanged tree\'s values for this line' if st == 'ref' else 'the property\'s own delay numbers only'))
        for k, v, want in bad:
            print('  VIOLATED %s = %s, expected %s' % (k, v, want)); rc = 1
    print('VIOLATION property=C04 replay=%s' % 'reproduced' if rc else 'replay: no bound violated on the current tree')
    return rc


# ------------------------------------------------------------------ calibration (never run by the check)

def calibration_templates():
    """Every template either tier can draw (the quick set is not a subset of the thorough set)."""
    seen, out = set(), []
    for tier in ('quick', 'thorough'):
        for t in all_templates(tier):
            if tid(t) not in seen:
                seen.add(tid(t)); out.append(t)
    return out


def calibrate(nseeds=16, workers=6, new_only=False):
    """Measure every template of both tiers on the tree VERIF_REPO points to (must be the unchanged /repo) for each
    of `nseeds` pool signal seeds and write CAL_PATH.  Run by hand only; the check never calls this.
    `new_only`: keep the existing file's seeds and reference values, measure only templates it does not have yet."""
    from check import Ctx
    ctx = Ctx('C04', 'thorough', 1)
    h = harness(ctx)
    ts = calibration_templates()
    prev = None
    if new_only:
        prev = json.load(open(CAL_PATH))
        seeds = prev['seeds']; nseeds = len(seeds)
        ts = [t for t in ts if tid(t) not in prev['ref']]
        print('measuring %d new templates (%d already have reference values)' % (len(ts), len(prev['ref'])))
    else:
        rng = common.SplitMix(0xC04CA1)
        seeds = []
        while len(seeds) < nseeds:
            v = 1 + rng.below(POOL_LIMIT)
            if v not in seeds:
                seeds.append(v)
    jobs = [(t, sd) for t in ts for sd in seeds]
    lines = [cfg_line(t, sd) for t, sd in jobs]
    t0 = time.time()
    res = run_rt(h, lines, workers=workers)
    print('ran %d round trips in %.0f s' % (len(lines), time.time() - t0))
    ref = {}
    fails = nuniv = 0
    for (t, sd), line in zip(jobs, lines):
        m = parse_out(res[line])
        if m is None:
            fails += 1
            print('FAILED on clean tree:', line, res[line]); continue
        mt = metrics(t, m)
        ub = universal_checks(t, m, mt, t['cls'] == 'delay')
        if ub:
            nuniv += 1
            print('UNIVERSAL bound violated on clean tree:', line, ub)
        d = ref.setdefault(tid(t), {})
        for k, v in mt.items():
            d.setdefault(k, [None] * nseeds)[seeds.index(sd)] = round(v, 4)
    if fails or nuniv:
        print('NOT WRITTEN: %d failures, %d universal-bound violations on the tree being calibrated' % (fails, nuniv))
        return 1
    cal = {'comment': 'C04 reference values measured on the unchanged tree, one per (template, pool signal seed); rewritten only by '
                      '`python3 tools/props/C04.py calibrate` (never by the check)',
           'repo_tree_hash': common.repo_hash(), 'design_seed': DESIGN_SEED, 'seeds': seeds,
           'rule': 'a metric of a round trip may differ from the reference of the same line by at most its margin, or by '
                   '%.2f x the spread of the reference values of the template over the pool seeds, whichever is larger' % SPREAD_FRACTION,
           'margin': MARGIN, 'templates': len(ref), 'ref': ref}
    if prev is not None:
        cal['repo_tree_hash'] = prev['repo_tree_hash']
        cal['added'] = prev.get('added', []) + [{'repo_tree_hash': common.repo_hash(), 'templates': len(ref)}]
        prev['ref'].update(ref)
        cal['ref'] = prev['ref']; cal['templates'] = len(cal['ref'])
    with open(CAL_PATH, 'w') as f:
        f.write(json.dumps(cal, sort_keys=True, separators=(',', ':')).replace('},"', '},\n"'))
    print('wrote %s: %d templates x %d seeds' % (CAL_PATH, len(ref), nseeds))
    return 0


if __name__ == '__main__':
    if len(sys.argv) >= 2 and sys.argv[1] == 'calibrate':
        if len(sys.argv) > 2 and sys.argv[2] == 'new':
            sys.exit(calibrate(new_only=True))
        sys.exit(calibrate(int(sys.argv[2]) if len(sys.argv) > 2 else 16))
    else:
        print(__doc__)
