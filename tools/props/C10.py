"""C10 — multistream and projection equal per-stream coding plus the channel mapping (DESIGN.md §7.C10)."""
import os, re, subprocess
import common

LEAN_MODULES = ['OpusProps.C10']
EXTENSIONS = ['C10msdec']   # extension slices merged into this property's check (tools/EXT_BRIEF.md)
GEN = ['LayoutTables', 'MappingMatrices']
SOURCES = ['src/opus_multistream.c', 'src/opus_multistream_decoder.c', 'src/opus_multistream_encoder.c',
           'src/opus_projection_encoder.c', 'src/opus_projection_decoder.c', 'src/mapping_matrix.c',
           'src/mapping_matrix.h', 'src/opus_private.h', 'src/repacketizer.c', 'src/opus.c', 'celt/mathops.c']
RULE = ('S3: exhaustive layout construction (channels -1..257 x mapping families 0,1,2,3,255 and four unknown ones, create and '
        'init entry points, valid and invalid sampling rate), validate_ambisonics on -3..300, isqrt32 on 1..2000 and a stride '
        'beyond; random (channels, streams, coupled, mapping) tuples with duplicates, 255 and boundary values through '
        'decoder/encoder init and create, validate_layout, validate_encoder_layout and get_left/right/mono_channel; '
        'multistream packet validation on concatenations of 1..24 self-delimited packets of equal or unequal duration, mutated; '
        'opus_multistream_decode_native with a scripted per-stream decoder and a logging copy callback (call trace); '
        'opus_multistream_encode with scripted per-stream encoders (real repacketizer; curr_max values, return value and bytes); '
        'opus_projection_decoder_create/init on exported and arbitrary matrices; in_float/out_float/in_int24 in the exact binary32 '
        'domain, out_int24 with arbitrary floats and accumulators up to the int32 limits; '
        'all six multiply functions (in/out x short/float/int24) also on random NON-SQUARE matrices (rows != cols, 1..7), so that a '
        'wrong column-major stride shows; mapping_matrix in_short/out_short on all ten built-in matrices in the exact float domain, out_short with accumulators '
        'placed on the int16 saturation boundary (sum = 32766..32769, -32770..-32767), and every impulse round trip. '
        'S4: RFC 7845/8486 layouts for every family x channels 1..255; real surround / multistream / projection encoders '
        '(all rates, 2.5..120 ms, float and int16, CBR/VBR, loss) -> packet structure -> real multistream decoder against '
        'stand-alone decoders bit for bit; the same with 40..120 ms multi-frame packets, unconstrained VBR at 80..135 kb/s per '
        'stream and loud/quiet 20 ms blocks (sub-frame sizes on both sides of 252 bytes; the number of such packets is printed); '
        'projection decoders created with random non-square demixing matrices (channels < streams+coupled) decoded through '
        'opus_projection_decode / _decode24 / _decode_float against the matrix applied to stand-alone decoder outputs of the '
        'same format; unit impulses through mixing and demixing matrices of all orders. '
        'A case is distinct by its (op, outcome kind) class (S3) or its (encoder kind, family, channels, rate, frame size, API) tuple (S4)')
NOT_COVERED = [
    'the encoder-side packet structure (ms_encode_packet_structure) takes each opus_encode_native result as an oracle within '
    'the C02/C07 contract; max_data_bytes clamping under OPUS_AUTO in CBR (rate allocation) is not modelled (the theorem holds '
    'for every effective max_data_bytes); the multistream OPUS_SET_BITRATE range clamp belongs to C11',
    'the per-stream encoders/decoders are opaque: routing is proved for arbitrary per-stream PCM, the equality with stand-alone '
    'decoders (same state evolution per stream) is established by the S4 search, not proved',
    'float paths of the mapping matrices (in_float/out_float/in_short) are modelled as exact dyadic functions and tied only '
    'inside the exact binary32 domain (no rounding); outside it the float round trip is only searched (impulse oracle); '
    'the int24 input path is tied only inside the exact binary32 domain; that decoded floats stay within +-1.0 (so that '
    'matrix_int24_exact applies to |sample| <= 2^23) is not proved',
    'mapping family 3 of RFC 8486 allows orders 0..14; the code has matrices for orders 1..5 only (other counts are rejected)',
    'OBSERVATION (no property clause demands user-supplied non-square matrices): a projection decoder created with '
    'channels C < N+M (streams+coupled) stores a C x (N+M) demixing matrix but uses only its first C columns - '
    'opus_projection_decoder_init gives the multistream decoder the identity layout on C channels, so decoded channel k is '
    'routed only for k < C and multiplied into column k; decoded channels k >= C are never output and columns k >= C are dead. '
    'RFC 8486 section 3.2 (family 3) prescribes output = D x (all N+M decoded channels). The built-in encoder only exports '
    'square matrices, for which both readings coincide; the S4 nonsq oracle follows the code (columns < C). C > N+M is rejected',
    'opus_int32 overflow: C int as unbounded integers (all quantities here are below 2^31 by the argument checks)',
]
ASSUMPTIONS = ['the mapping array supplied to init/create holds at least `channels` bytes (exact-size heap blocks under ASan)',
               'allocation succeeds',
               'x86 float2int rounds to nearest even (cvtss2si), as in the verified build configuration']
REQUIRED_THEOREMS = ['OpusProps.C10.validate_spec', 'OpusProps.C10.create_rejects', 'OpusProps.C10.routing',
                     'OpusProps.C10.routing_pcm', 'OpusProps.C10.surround_layout_valid', 'OpusProps.C10.family1_is_rfc7845',
                     'OpusProps.C10.ambisonics_counts', 'OpusProps.C10.projection_layout_valid',
                     'OpusProps.C10.demix_inverts_mix', 'OpusProps.C10.ms_packet_structure',
                     'OpusProps.C10.matrix_short_saturates', 'OpusProps.C10.ms_encode_packet_structure',
                     'OpusProps.C10.import_export_demix', 'OpusProps.C10.isqrt32_correct',
                     'OpusProps.C10.projdec_create_rejects', 'OpusProps.C10.ms_encode_packet_structure_skel',
                     'OpusProps.C10.ambisonics_channel_identity', 'OpusProps.C10.projection_mix_demix_identity',
                     'OpusProps.C10.matrix_int24_exact']
UNPROVED = ['the inner SILK/CELT/analysis contracts of the encoder skeleton (SkelOk) are the only assumption left under '
            'ms_encode_packet_structure_skel; they are C02/C05 oracle contracts, monitored there and by the S4 search here',
            'equality of the streams inside a multistream decoder with stand-alone decoders (per-stream codecs are opaque)']


def _n(ctx, quick, thorough):
    return str(quick if ctx.quick else thorough)


def _harness(ctx, name, variant, extra=()):
    """ctx.harness with one retry: the shared library cache (.cache/lib, pruned to 8 entries) can lose the directory
    of a freshly built library while other checks build theirs; rebuild it then."""
    try:
        return ctx.harness(name, ['c10_layout.c'], variant=variant, extra=list(extra))
    except RuntimeError:
        ctx._libs.pop(variant, None)
        return ctx.harness(name, ['c10_layout.c'], variant=variant, extra=list(extra))


def _tie(name, cmd):
    """common.run_tie, retried when the shared driver binary is momentarily missing (another owner's `lake build opusmodel`
    relinks it in place)."""
    import time
    for attempt in range(4):
        try:
            return common.run_tie(name, cmd)
        except FileNotFoundError:
            time.sleep(20)
            common.lake_build(['opusmodel'])
    return common.run_tie(name, cmd)


def ties(ctx):
    h = _harness(ctx, 'c10_layout', 'san')
    hs = _harness(ctx, 'c10_layout_stub', 'san', extra=['-DC10_STUB'])
    out = []
    out.append(_tie('layout-enum', [h, 'enum']))
    out.append(_tie('layout-rand', [h, 'rand', str(ctx.seed), _n(ctx, 6000, 150000)]))
    out.append(_tie('layout-msval', [h, 'msval', str(ctx.seed + 100), _n(ctx, 20000, 400000)]))
    out.append(_tie('layout-route', [hs, 'route', str(ctx.seed + 200), _n(ctx, 6000, 120000)]))
    out.append(_tie('layout-matrix', [h, 'matrix', str(ctx.seed + 300), _n(ctx, 1500, 30000)]))
    out.append(_tie('layout-msenc', [hs, 'msenc', str(ctx.seed + 600), _n(ctx, 6000, 100000)]))
    out.append(_tie('layout-projdec', [h, 'projdec', str(ctx.seed + 700), _n(ctx, 4000, 60000)]))
    return out


_REJECT = {'BAD_ARG', 'BUFFER_TOO_SMALL', 'INTERNAL_ERROR', 'INVALID_PACKET', 'UNIMPLEMENTED', 'INVALID_STATE',
           'ALLOC_FAIL', 'REJECT'}
_CLAUSE = {
    'surround': 'surround/ambisonics layout construction (theorem surround_layout_valid / family1_is_rfc7845)',
    'proj': 'projection layout construction and exported demixing matrix (theorems projection_layout_valid, demix_inverts_mix)',
    'ambi': 'ambisonics channel counts (theorem ambisonics_counts)',
    'decinit': 'invalid layouts are rejected at creation (theorems validate_spec, create_rejects)',
    'encinit': 'invalid layouts are rejected at creation (theorems validate_spec, create_rejects)',
    'vlayout': 'layout validation (theorem validate_spec)',
    'getchan': 'channel lookup used by routing (theorem routing)',
    'msvalidate': 'multistream packet = self-delimited packets of equal duration (theorem ms_packet_structure)',
    'route': 'decode routing (theorem routing)',
    'mixout': 'int16 output of the mapping-matrix multiply = saturating Q15 multiply-accumulate (theorem matrix_short_saturates); '
              'the demixing step of projection decode',
    'mixin': 'int16 input of the mapping-matrix multiply = exact linear combination of the matrix row (exact binary32 domain); '
             'the mixing step of projection encode (theorem demix_inverts_mix is about these cells)',
    'ambi': 'ambisonics channel counts (theorem ambisonics_counts)',
    'msenc': 'the multistream encoder emits self-delimited packets ++ one standard packet of equal duration '
             '(theorem ms_encode_packet_structure)',
    'projdec': 'projection decoder creation: argument checks and the imported demixing matrix (theorems projdec_create_rejects, '
               'import_export_demix)',
    'mixin24': 'int24 input path of the mapping-matrix multiply = exact linear combination (exact binary32 domain)',
    'mixout24': 'int24 output path of the mapping-matrix multiply = Q15 multiply-accumulate converted to int32 without '
                'saturation (theorem matrix_int24_exact)',
    'mixinf': 'float input path of the mapping-matrix multiply = exact linear combination (exact binary32 domain)',
    'mixoutf': 'float output path of the mapping-matrix multiply = exact multiply-accumulate (exact binary32 domain)',
}


def classify(ctx, tie, mm):
    impl, model, inp = str(mm.get('impl', '')), str(mm.get('model', '')), mm.get('input', '')
    if impl in ('SANITIZER', 'ABORT', 'SIGSEGV'):
        return {'suite': tie.name, 'input': inp, 'expected': model, 'observed': impl,
                'why': 'sanitizer report / hardening assert while building or using a layout'}
    op = (inp.split(' ') + ['', ''])[1]
    if op not in _CLAUSE:
        return None          # isqrt: auxiliary function, no property clause of its own
    i0, m0 = impl.split(' ')[0], model.split(' ')[0]
    if m0 in ('INEXACT', 'bad-op', 'MODEL-NO-MATRIX'):
        return None          # the model makes no statement about this input: a broken tie, not a property violation
    if i0 in _REJECT and m0 in _REJECT:
        return None          # both reject, only the error name differs: correspondence broken, not the property
    return {'suite': tie.name, 'input': inp, 'expected': model, 'observed': impl,
            'why': 'implementation differs from the Lean model that is proved to satisfy: ' + _CLAUSE[op]}


# ---- independent transcription of the RFC layouts (used by the S4 search; no Lean model involved)
_SPEAKERS = {1: ['M'], 2: ['L', 'R'], 3: ['L', 'C', 'R'], 4: ['FL', 'FR', 'RL', 'RR'], 5: ['FL', 'FC', 'FR', 'RL', 'RR'],
             6: ['FL', 'FC', 'FR', 'RL', 'RR', 'LFE'], 7: ['FL', 'FC', 'FR', 'SL', 'SR', 'RC', 'LFE'],
             8: ['FL', 'FC', 'FR', 'SL', 'SR', 'RL', 'RR', 'LFE']}        # RFC 7845 section 5.1.1.2, Figures 3-9


# the stream layouts every libopus-based Ogg Opus encoder writes for family 1 (pinned literal; index = channels)
_FAMILY1 = {1: (1, 0, [0]), 2: (1, 1, [0, 1]), 3: (2, 1, [0, 2, 1]), 4: (2, 2, [0, 1, 2, 3]), 5: (3, 2, [0, 4, 1, 2, 3]),
            6: (4, 2, [0, 4, 1, 2, 3, 5]), 7: (4, 3, [0, 4, 1, 2, 3, 5, 6]), 8: (5, 3, [0, 6, 1, 2, 3, 4, 5, 7])}


def family1_problems(ch, streams, coupled, mapping):
    """What RFC 7845 5.1.1.2 demands of a family-1 layout for the loudspeaker order _SPEAKERS[ch] (independent of the
    pinned literal): every decoded channel feeds exactly one loudspeaker, left/right pairs are the two sides of one
    coupled stream, the LFE is the last, uncoupled stream."""
    sp, out = _SPEAKERS[ch], []
    if len(mapping) != ch or streams + coupled != ch or sorted(mapping) != list(range(ch)):
        out.append('mapping is not a permutation of the %d decoded channels' % ch)
        return out
    for a, name in enumerate(sp):
        if name.endswith('L') and name[:-1] + 'R' in sp:
            b = sp.index(name[:-1] + 'R')
            if not (mapping[a] % 2 == 0 and mapping[a] < 2 * coupled and mapping[b] == mapping[a] + 1):
                out.append('%s/%s are not the left/right side of one coupled stream' % (name, sp[b]))
        if name == 'LFE' and not (mapping[a] == streams - 1 + coupled and coupled < streams):
            out.append('LFE is not the last (mono) stream')
    return out


def rfc7845_family1(ch):
    return _FAMILY1[ch]


def _ambisonic_counts(max_order):
    return {(n + 1) ** 2 + 2 * j: (n, j) for n in range(max_order + 1) for j in (0, 1)}


def expected_layout(family, ch):
    """None = must be rejected; otherwise a predicate-style description checked by _check_layout."""
    if family == 0:
        return {1: (1, 0, [0]), 2: (1, 1, [0, 1])}.get(ch)
    if family == 1:
        return rfc7845_family1(ch) if 1 <= ch <= 8 else None
    if family == 255:
        return (ch, 0, list(range(ch)))
    if family == 2:
        c = _ambisonic_counts(14)
        if ch not in c:
            return None
        n, j = c[ch]
        acn = (n + 1) ** 2
        return (acn + j, j, [2 * j + k for k in range(acn)] + ([0, 1] if j else []))
    if family == 3:
        c = {k: v for k, v in _ambisonic_counts(5).items() if v[0] >= 1}
        if ch not in c:
            return None
        return ((ch + 1) // 2, ch // 2, list(range(ch)))
    return None


def _run(cmd, timeout=3000):
    env = dict(os.environ)
    env.setdefault('ASAN_OPTIONS', 'detect_leaks=0:abort_on_error=0')
    p = subprocess.run(cmd, stdout=subprocess.PIPE, stderr=subprocess.PIPE, text=True, env=env, timeout=timeout)
    return p


def search(ctx):
    """Property predicates on the implementation only (harness modes rfc / impulse / search)."""
    h = _harness(ctx, 'c10_layout_plain', 'plain')
    wit, cases, samples, distinct = [], 0, [], set()

    # (a) layouts for every family x channel count against the RFC transcription above
    p = _run([h, 'rfc'])
    seen = 0
    for line in p.stdout.split('\n'):
        if not line.startswith('L '):
            continue
        f = line.split(' ')
        family, ch, status = int(f[1]), int(f[2]), f[3]
        seen += 1
        exp = expected_layout(family, ch)
        inp = 'mapping family %d, %d channels (harness mode rfc)' % (family, ch)
        if exp is None:
            if status == 'OK':
                wit.append({'suite': 'layout-rfc', 'input': inp, 'expected': 'rejected (no RFC 7845/8486 layout for this count)',
                            'observed': line, 'why': 'an encoder is created for a channel count the mapping family does not define'})
            continue
        distinct.add(('rfc', family, ch))
        if status != 'OK':
            wit.append({'suite': 'layout-rfc', 'input': inp, 'expected': 'streams=%d coupled=%d mapping=%s' % exp,
                        'observed': status, 'why': 'a supported channel count of the mapping family is rejected'})
            continue
        got = (int(f[4]), int(f[5]), [int(x) for x in f[8].split(',')])
        if family == 1:
            for why in family1_problems(ch, *got):
                wit.append({'suite': 'layout-rfc', 'input': inp, 'expected': 'RFC 7845 5.1.1.2 loudspeaker order ' + ' '.join(_SPEAKERS[ch]),
                            'observed': line, 'why': why})
        if got != (exp[0], exp[1], exp[2]) or f[6] != '1' or f[7] != '1':
            wit.append({'suite': 'layout-rfc', 'input': inp, 'expected': 'streams=%d coupled=%d mapping=%s, accepted by encoder and decoder' % exp,
                        'observed': line, 'why': 'the layout built for this family/count is not the one RFC 7845 5.1.1 / RFC 8486 3 prescribes '
                                                 '(or is refused by the multistream encoder/decoder)'})
    cases += seen
    if seen != 5 * 255:
        wit.append({'suite': 'layout-rfc', 'input': 'harness mode rfc', 'expected': '1275 layout lines', 'observed': '%d lines, exit %d: %s' % (seen, p.returncode, p.stderr[-800:]),
                    'why': 'layout enumeration on the implementation did not complete'})
    samples.append('rfc: %d (family, channels) layouts compared with the RFC transcription' % seen)

    def eat(p, suite, what):
        nonlocal cases
        ok = False
        for line in p.stdout.split('\n'):
            if line.startswith('DIFF '):
                parts = [x.strip() for x in line[5:].split(' | ')]
                if len(parts) >= 4:
                    wit.append({'suite': suite, 'input': parts[0] + ' (' + what + ')', 'expected': parts[2].replace('expected=', ''),
                                'observed': parts[3].replace('observed=', ''), 'why': parts[1]})
            elif line.startswith('C '):
                distinct.add(line)
            elif line.startswith('SEARCH '):
                m = re.search(r'cases=(\d+) checks=(\d+) diffs=(\d+)', line)
                cases += int(m.group(1))
                samples.append('%s: %s' % (suite, line))
                ok = True
            elif line.startswith('# '):
                samples.append(line[2:])
            elif line.startswith('O ABORT') or line.startswith('O SIGSEGV') or line.startswith('O SANITIZER'):
                wit.append({'suite': suite, 'input': what, 'expected': 'no crash / assert', 'observed': line[2:] + ' ' + p.stderr[-1200:],
                            'why': 'the implementation aborted during the property run'})
                ok = True
        if not ok:
            wit.append({'suite': suite, 'input': what, 'expected': 'harness completes', 'observed': 'exit %d: %s' % (p.returncode, p.stderr[-1200:]),
                        'why': 'property harness crashed'})

    # (b) unit impulses through the mixing matrix then the exported demixing matrix, all five orders
    eat(_run([h, 'impulse']), 'layout-impulse', 'harness mode impulse')
    # (c) encoders -> packet structure -> multistream decoder vs stand-alone decoders
    n = 2500 if ctx.quick else 60000
    seed = ctx.seed + 400
    eat(_run([h, 'search', str(seed), str(n)]), 'layout-search', 'harness: c10_layout search %d %d' % (seed, n))
    # (d) directed: multi-frame packets through the repacketizer path (40..120 ms, unconstrained VBR, 80..135 kb/s per stream,
    #     loud/quiet 20 ms blocks so that the sub-frame sizes of a stream straddle the 251/252-byte length-coding boundary)
    n = 300 if ctx.quick else 4000
    seed = ctx.seed + 500
    eat(_run([h, 'straddle', str(seed), str(n)]), 'layout-straddle', 'harness: c10_layout straddle %d %d' % (seed, n))
    # (d2) projection decoders with non-square demixing matrices (channels < streams+coupled), int16 / int24 / float APIs: each
    #      equals the matrix applied to the stand-alone decoder outputs of the same format
    n = 150 if ctx.quick else 3000
    seed = ctx.seed + 800
    eat(_run([h, 'nonsq', str(seed), str(n)]), 'layout-nonsq', 'harness: c10_layout nonsq %d %d' % (seed, n))
    # (e) corpus case (fixed defect 31272f65): projection decoder creation with a zero cell count, on which the code used to
    #     declare a zero-length array before validating its arguments (run under ASan/UBSan; a sanitizer report is a witness)
    hsan = _harness(ctx, 'c10_layout', 'san')
    p = _run([hsan, 'projvla'])
    cases += 2
    answered = [l for l in p.stdout.split('\n') if l.startswith('O ')]
    if 'runtime error' in p.stderr or 'AddressSanitizer' in p.stderr or any(l.startswith('O SANITIZER') for l in answered) \
            or p.returncode != 0 or len(answered) != 2:
        rep = [l for l in p.stderr.split('\n') if 'runtime error' in l or 'ERROR' in l][:2]
        wit.append({'suite': 'layout-projdec-vla', 'input': 'projdec create 1 0 1 0 x 0 (opus_projection_decoder_create(48000, channels=0, '
                    'streams=1, coupled=0, matrix, size=0); harness mode projvla)', 'expected': 'BAD_ARG without undefined behaviour',
                    'observed': ' | '.join(rep) or 'exit %d: %s' % (p.returncode, p.stderr[-300:]),
                    'why': 'opus_projection_decoder_init declares opus_int16 buf[nb_input_streams*channels] before validating '
                           'channels/streams/coupled: zero-length variable length array (src/opus_projection_decoder.c:167)'})
    elif any(l != 'O BAD_ARG' and l != 'O ALLOC_FAIL' for l in answered):
        wit.append({'suite': 'layout-projdec-vla', 'input': 'harness mode projvla', 'expected': 'BAD_ARG', 'observed': ' '.join(answered),
                    'why': 'a projection decoder is created for zero channels / zero coded channels'})
    samples.append('projvla: %s' % ' '.join(answered))
    return {'cases': cases, 'distinct': len(distinct),
            'oracle': 'RFC 7845/8486 layout per family and channel count (accepted by both validators, rejected elsewhere); every packet of '
                      'the surround/multistream/projection encoders splits into nb_streams self-delimited packets (last standard) of the '
                      'frame duration; multistream decode output equals, bit for bit, the stand-alone decoder output of the mapped '
                      'stream/side for every channel and is exactly zero for mapping 255 (float and int16, with losses); projection decode '
                      'equals the exported demixing matrix applied to the stand-alone outputs; unit impulses through mixing then '
                      'demixing reproduce the input within 3e-4 after the stated gain',
            'samples': samples + sorted(str(x) for x in distinct)[:3], 'witnesses': wit}


LEVEL_TEXT = ('proof about the Lean transcription of the layout code: validate_layout / validate_encoder_layout are exactly the '
              'declarative validity predicates; decoder/encoder creation accepts exactly the in-range arguments with a valid layout '
              '(create = init, every refusal BAD_ARG); for every created decoder and arbitrary per-stream decoder behaviour every '
              'output channel is written exactly once, with the left/right/mono samples of the stream its mapping byte designates, '
              'or zeros iff 255; for every family in {0,1,2,255} and every channel count 1..255 init and create build exactly the '
              'RFC 7845/8486 layout, accepted by both validators and by the generic encoder and decoder, or refuse when the RFC '
              'defines none; family 1 equals the published literal and meets the RFC 7845 5.1.1.2 loudspeaker-order requirements; '
              'validate_ambisonics accepts exactly (n+1)^2+2j, n<=14; projection (family 3) layouts for orders 1..5 and refusal '
              'elsewhere; opus_multistream_packet_validate accepts exactly n-1 self-delimited packets + one standard packet of '
              'equal duration (on top of the C06 parser theorems) and reads only the packet; for the five built-in ambisonics '
              'orders the integer product of the regenerated demixing and mixing tables, scaled by the exact real 10^(g/5120), is '
              'within 3e-4 of 2^30 times the identity (with and without the non-diegetic pair); the int16 matrix output saturates; '
              'the stream loop of opus_multistream_encode_native, for every per-stream encoder behaviour within the C02/C07 contract, '
              'emits n-1 self-delimited packets + one standard packet of the common duration that fit max_data_bytes and that '
              'opus_multistream_packet_validate accepts (on top of C07 cat_first / outRangeImpl theorems), and the unchecked '
              'repacketizer return value is never negative; opus_projection_decoder_init/create accept exactly the documented '
              'arguments (never abort) and the matrix imported from the exported bytes is the restricted demixing matrix; isqrt32 is '
              'the integer square root on 1..2^32-1; with the C02/C05 encoder skeleton in every stream the packet-structure theorem needs '
              'only the skeleton-internal DSP contracts (the skeleton pads with zeros only); family-2 and family-3 channels keep '
              'their identity (and, for projection, their level up to the stated gain, with the decoder-side copy of the matrix); '
              'the int24 output path is an exact, non-saturating Q15 accumulate that cannot wrap on 24-bit samples')
LEVEL_NOTE = ('trusted: Lean kernel; extractors for vorbis_mappings and the ten int16 matrices (re-run on every check, cross-checked '
              'by the correspondence suites); the correspondence harness. Equality with stand-alone decoders and the encoder packet '
              'structure rest on the S4 search (implementation only).')
TECHNIQUE = ('Lean 4 theorems about an executable transcription + regenerated tables (decide +kernel) + differential correspondence '
             'under ASan/UBSan + property search on the implementation')
