"""C19gain — extension slice of C19: the decoder gain over whole decoder HISTORIES (all coding modes, transitions,
loss, FEC, resets, gain changes) and its fan-out in the multistream decoder (DESIGN.md §7.C19, §12.8 C19)."""
import json, os, re, subprocess, sys
import common

LEAN_MODULES = ['OpusProps.C19Gain']
GEN = []
SOURCES = ['src/opus_decoder.c', 'src/opus_multistream_decoder.c', 'src/opus_private.h', 'include/opus.h',
           'include/opus_defines.h', 'celt/arch.h', 'celt/mathops.h', 'celt/float_cast.h', 'src/opus.c']
# theorem names of lean/OpusProps/C19Gain.lean (filled in by the slice owner)
_THMS = ('gain_api_entry_points', 'gain_history_simulation', 'gain_history_same_returns', 'gain_pass_last_in_frame',
         'gain_scaling_samplewise', 'gain_log_separated', 'gain_history_output_scaled')
REQUIRED_THEOREMS = ['OpusProps.C19Gain.' + t for t in _THMS]
UNPROVED = ['which samples ARE covered by a gain pass: proved is that each pass covers exactly its frame\'s audiosize*channels samples '
            'from the frame\'s own pcm pointer, that frames / concealment chunks are consecutive, that no sample is covered twice '
            'and nothing later reads a covered sample, and that samples not covered are IDENTICAL in both runs. Not a theorem: '
            'that with gain != 0 every sample of [0, ret*channels) is covered — it is not true of the code either: a lost packet '
            'before the first decoded packet (prev_mode == 0) returns zeros without a gain pass, src/opus_decoder.c:320-327 '
            '(identical = scaled there because the samples are 0). Searched bit for bit on every output sample in S4',
            'int16 API (opus_decode): the soft clipper runs over the whole output after all gain passes and is not linear; '
            'gain_history_output_scaled gives for such calls the simulation part only (returns, packet offsets, events, state); the '
            'sample relation int16 = FLOAT2INT16(softclip(k*pcm_0)) is searched in S4',
            'DspLocal (footprint of SILK / CELT / the cross-fade loops: write only the logged extent, read only that extent '
            'and the scratch buffers, never decode_gain) is an ASSUMPTION of the sample theorems, not proved about the DSP code',
            'the fan-out loop of OPUS_SET_GAIN in opus_multistream_decoder_ctl is not modelled (each stream decoder is one '
            'history of the theorems; that the ctl reaches every stream is searched in S4, mode `ms`)']
RULE = ('stratified/random (seeded) HISTORIES on twin real decoders (gain 0 / gain g, ASan+UBSan build). Per history: encoder and '
        'decoder rate in {8,12,16,24,48} kHz and channel count 1..2 drawn independently; 8..21 steps; packet source by '
        'strategy (history index mod 4): automatic mode at varying bitrates / ONE encoder whose forced mode (SILK-only, hybrid, '
        'CELT-only) is switched mid-stream (redundancy frames, celt_to_silk both ways) / packets alternating between two '
        'encoders forced to different modes (transitions without redundancy: recursive opus_decode_frame + cross-fade) / '
        'both; frame durations 2.5..120 ms re-drawn with probability 1/4 per packet; in-band FEC + packet-loss percentage '
        'on in 60 % of the histories. Step kinds: normal decode (65 %), lost packet with a PLC size that is any multiple of '
        '2.5 ms up to 120 ms incl. 7.5 / 12.5 ms (14 %), FEC decode of the next packet after a loss (70 % of the occasions; exact, longer '
        'and arbitrary sizes), corrupted / truncated packet (7 %), OPUS_RESET_STATE (5 %), OPUS_SET_GAIN with a new gain on '
        'the gain-g twin (7 %); API per call: opus_decode_float 60 %, opus_decode 30 %, opus_decode24 10 %. Gains: 65 % from '
        '{+-1, +-256, +-1536, 3050, +-5120, +-10240, 20000, 32767, -32768, 0}, else uniform in int16. Multistream: 2..4 '
        'streams, 0..all coupled, decoder mapping equal to the encoder\'s or random incl. muted (255) and duplicated '
        'channels, lost packets, FEC, resets, gain changes. A case is one decoder call; distinct by (step kind, packet mode, '
        'API) — the histogram is printed in STAT.')
NOT_COVERED = ['OPUS_GET_FINAL_RANGE: rangeFinal is not a field of the skeleton\'s state (it comes from the range decoder / CELT, which the '
               'skeleton treats as oracles; proved is that the oracle calls and their arguments are identical for gain g and gain 0); '
               'its equality is searched on the implementation after every call',
               'the VALUE of the gain factor (10^(g/5120)) is C19\'s gainsearch, not this slice; here the factor is whatever the '
               'library\'s expression celt_exp2(6.48814081e-4f*g) evaluates to in the harness TU',
               'redundancy frames cannot be observed from outside; they are provoked (forced-mode switches of one encoder) '
               'and counted only as mode transitions seen in the TOC',
               'DRED / deep PLC / OSCE builds (ENABLE_DRED, ENABLE_DEEP_PLC, ENABLE_OSCE are off in the verified configuration)',
               'fixed-point builds (the gain pass uses MULT16_32_P16 + SATURATE there); the relation checked is the float build\'s',
               'projection / ambisonics decoders (they wrap the multistream decoder; the gain ctl is forwarded unchanged)',
               'the Lean theorems speak about C01\'s decoder skeleton and an abstract sample semantics with the footprint assumption '
               'DspLocal; the sample-level relation on the real SILK / CELT signal paths is searched here bit for bit, not proved',
               'soft clip + int16 conversion after the gain (opus_decode): searched, see UNPROVED']
ASSUMPTIONS = ['DspLocal (explicit hypothesis of gain_scaling_samplewise / gain_history_output_scaled): every non-gain event — a '
               'silk_Decode / celt_decode_with_ec call, a copy or cross-fade loop of opus_decode_frame — writes only the extent '
               'the skeleton logs for it and computes from that extent, the scratch buffers (pcm_silk, pcm_transition, '
               'redundant_audio) and codec state only, never from decode_gain or from other parts of the caller\'s buffer. '
               'Checked on the implementation: C01\'s wrappers assert the extents on every explored call (tie gain-decskel), and '
               'the twin search compares the COMPLETE decoder objects (SILK + CELT state) byte for byte after every call and '
               'the output bit for bit — a DSP routine reading decode_gain or a scaled sample would show in either',
               'x86-64 SSE2 build, default rounding mode, no -ffast-math, no FMA contraction in src/opus_decoder.c (the '
               'bit-for-bit comparison would show a contraction: calibrated tolerance is 0 ulp)',
               'the decoder object is fully initialised by opus_decoder_init (OPUS_CLEAR of the whole object), so a byte-wise '
               'comparison of two objects with the same history is meaningful (holds on the unchanged tree: no alarm at seeds 1..5)']
TRUSTED = ['harness/c19_gain.c: its expectation for the 16-bit path re-runs the library\'s own opus_pcm_soft_clip (C19 proper '
           'verifies that function) on the gain-g float output']

ENV = {'ASAN_OPTIONS': 'detect_leaks=0:abort_on_error=0', 'UBSAN_OPTIONS': 'print_stacktrace=1'}
CALIB = json.load(open(os.path.join(os.path.dirname(os.path.abspath(__file__)), 'C19gain_calib.json')))


def _harness(ctx):
    return ctx.harness('c19_gain', ['c19_gain.c'], variant='san')


def ties(ctx):
    """The model of this slice IS C01's decoder skeleton (no new definitions that could disagree with the code): its
    correspondence with src/opus_decoder.c — return values, state incl. decode_gain, every oracle call and every buffer
    access, the gain pass as one contiguous sweep `G<n>@<ptr>` of exactly the logged extent, histories with
    OPUS_SET_GAIN / reset / loss / FEC — is C01's `decskel` suite.  It is re-run here on a seed stream of its own so that
    the gain theorems never rest on an unchecked skeleton when C19 is checked alone."""
    h = ctx.harness('c01_decskel', ['c01_decskel.c'], variant='san')
    return [common.run_tie('gain-decskel', [h, 'rand', str(ctx.seed + 1900), '40' if ctx.quick else '250'])]


def classify(ctx, tie, mm):
    """A disagreement in `gain-decskel` means the skeleton the gain theorems are stated on no longer describes the code
    (reported as broken correspondence); a trap is always a witness."""
    if not mm:
        return None
    impl = mm.get('impl', '')
    if impl in ('SANITIZER', 'ABORT', 'SIGSEGV'):
        return {'suite': getattr(tie, 'name', 'gain'), 'input': mm.get('input', ''), 'expected': mm.get('model'),
                'observed': impl, 'why': 'the decoder trapped (%s) on this input' % impl,
                'sanitizer_report': mm.get('sanitizer_report')}
    return None


def _sizes(ctx):
    # measured (ASan+UBSan build): search ~35 ms per history, ms ~25 ms per history
    return (500, 120) if ctx.quick else (6000, 1500)


def search(ctx):
    """Twin real decoders, gain g vs gain 0, same packet histories; see harness/c19_gain.c."""
    h = _harness(ctx)
    ns, nm = _sizes(ctx)
    tol = str(int(CALIB['float_scale_ulps']))
    env = dict(os.environ)
    env.update(ENV)
    cmds = [('search', [h, 'search', str(ctx.seed), str(ns), tol]),
            ('ms', [h, 'ms', str(ctx.seed), str(nm), tol])]
    wit, cases, stats, samples = [], 0, {}, []
    procs = [(name, cmd, subprocess.Popen(cmd, stdout=subprocess.PIPE, stderr=subprocess.STDOUT, text=True, env=env))
             for name, cmd in cmds]
    for name, cmd, p in procs:
        try:
            out, _ = p.communicate(timeout=3000)
        except subprocess.TimeoutExpired:
            p.kill()
            out, _ = p.communicate()
            out += '\nTIMEOUT'
        got = False
        for line in out.split('\n'):
            if line.startswith('W '):
                parts = line[2:].split(' | ')
                if len(parts) >= 5:
                    wit.append({'suite': 'gain-search-' + parts[0], 'input': parts[1], 'expected': parts[2],
                                'observed': parts[3], 'why': parts[4]})
            elif line.startswith('STAT '):
                got = True
                samples.append('%s seed %d: %s' % (name, ctx.seed, line[5:]))
                for kv in line[5:].split(' '):
                    k, _, v = kv.partition('=')
                    try:
                        stats[name + '.' + k] = float(v)
                    except ValueError:
                        stats[name + '.' + k] = v
                m = re.search(r'cases=(\d+)', line)
                if m:
                    cases += int(m.group(1))
        if p.returncode != 0 or not got:
            tail = [l for l in out.split('\n') if 'runtime error' in l or 'ERROR: AddressSanitizer' in l
                    or l.startswith('SUMMARY') or l.startswith('O ABORT') or l.startswith('O SANITIZER') or 'TIMEOUT' in l]
            wit.append({'suite': 'gain-search-' + name, 'input': 'c19_gain ' + ' '.join(cmd[1:]),
                        'expected': 'the search runs to completion without sanitizer report / abort',
                        'observed': '; '.join(tail[:4]) or ('exit code %s: %s' % (p.returncode, out[-400:])),
                        'why': 'the implementation trapped (out-of-bounds access, undefined behaviour or assertion)'})
    return {'cases': cases, 'distinct': 36,
            'oracle': 'on the real library (ASan+UBSan build), twin decoders A (gain 0) and B (gain g, changed mid-history) fed '
                      'the same packet history — real encoders in automatic mode, one encoder switching its forced mode '
                      '(SILK-only / hybrid / CELT-only; redundancy frames), two encoders alternating (transitions without '
                      'redundancy: recursive opus_decode_frame + cross-fade), frames of 2.5..120 ms, in-band FEC — with normal '
                      'decodes, lost packets (PLC sizes incl. 7.5 / 12.5 ms and > 20 ms), FEC decodes, corrupted / truncated '
                      'packets, OPUS_RESET_STATE, OPUS_SET_GAIN changes, float / int16 / int24 API. After EVERY call: equal '
                      'return values (also negative), final range, last packet duration, bandwidth, pitch; the complete '
                      'decoder objects (OpusDecoder + SILK + CELT state) byte-equal except decode_gain (and softclip_mem '
                      'for the pair using the integer API); float output of B == (float)(output of A * G) per sample, bit '
                      'for bit (tolerance %s ulp, calibrated), equal bits when g == 0 — i.e. the gain is applied exactly once '
                      'to every sample of the frame on transition, PLC and FEC frames too; int16 output == '
                      'saturate(round(32768 * softclip(scaled float))) (no soft clip on PLC/FEC calls), int24 == round(2^23 * '
                      'scaled float). Multistream (2..4 streams, coupled/uncoupled mix, muted and duplicated channels): '
                      'OPUS_SET_GAIN via opus_multistream_decoder_ctl reaches every stream decoder (OPUS_GET_GAIN per stream) '
                      'and survives a reset, the untouched twin keeps 0; returns and final range equal; every output sample of '
                      'B == A * G bit for bit, muted channels +0 on both; each stream decoder object equal except decode_gain' % tol,
            'stats': stats, 'samples': samples, 'witnesses': wit[:10]}


def replay(ctx, obj):
    """A witness of this slice is a position in a seeded history (`c19_gain search|ms <seed> <n>: stream <s> step <f> ...`):
    re-run that harness mode with the recorded seed up to the recorded stream and print the W lines again."""
    items = [obj] + list(obj.get('other_witnesses', []))
    runs = []
    for w in items:
        m = re.match(r'c19_gain (search|ms) (\d+): stream (\d+) ', w.get('input', ''))
        if m and (m.group(1), m.group(2)) not in [(a, b) for a, b, _ in runs]:
            runs.append((m.group(1), m.group(2), int(m.group(3))))
    if not runs:
        print('replay: %s; re-running the whole check' % obj.get('kind'))
        os.execv(sys.executable, [sys.executable, os.path.join(common.VERIF, 'tools', 'check.py'), ctx.prop,
                                  '--tier', obj.get('tier', 'quick')])
    h = _harness(ctx)
    bad = 0
    for mode, seed, stream in runs:
        cmd = [h, mode, seed, str(stream + 1), str(int(CALIB['float_scale_ulps']))]
        rc, out = common.sh(cmd, env=ENV)
        ws = [l for l in out.split('\n') if l.startswith('W ')]
        print('replay: c19_gain %s -> exit %s, %d witness line(s)' % (' '.join(cmd[1:]), rc, len(ws)))
        for l in ws[:8]:
            print('  ' + l[:1200])
        if ws or rc != 0:
            bad += 1
    if bad:
        print('VIOLATION property=%s replay reproduced (%d run(s) with findings)' % (ctx.prop, bad))
        return 1
    print('replay: the recorded history no longer fails')
    return 0


LEVEL_TEXT = ('proof (extension `gain` of C19) on C01\'s decoder skeleton (tied to src/opus_decoder.c by the decskel suite, re-run '
              'here; the gain pass is the logged event G): (1) every API entry point and every HISTORY of calls (decode / lost '
              'packet / FEC in the three formats, raw native calls as made by the multistream decoder, OPUS_RESET_STATE, '
              'OPUS_SET_GAIN; any arguments, any DSP behaviour) is in simulation with its gain-0 twin: same return values, '
              'packet offsets, oracle calls and events up to gain passes, same final state except decode_gain (incl. '
              'last_packet_duration, prev_mode, prev_redundancy); (2) the gain pass is the last event of a frame, after '
              'redundancy and transition cross-fades, over exactly audiosize*channels samples from the frame\'s pcm pointer; '
              '(3) for every state satisfying C01\'s invariant and every call without soft clip the event log is SEPARATED: no '
              'event after a gain pass touches one of its samples, gain passes are in the caller\'s buffer (frames and concealment '
              'chunks are consecutive; the transition frame runs with gain 0 on a scratch buffer); (4) with an abstract sample '
              'semantics (samples in any type with a multiplication — ring, field or binary32 —, gain pass = k * x, every other '
              'event an arbitrary function with the footprint property DspLocal) the memory after every call of every history '
              'is the gain-0 twin\'s memory with the samples of the gain passes multiplied by k, each once, everything else '
              'identical: pcm_g = k * pcm_0. Float build: no saturation in the gain pass. Searched on the real library (S4): '
              'the same on real SILK / hybrid / CELT packets incl. transitions with and without redundancy, PLC, FEC, corrupted '
              'packets, all three APIs, complete decoder objects byte for byte, output B == A * G bit for bit; multistream fan-out.')
LEVEL_NOTE = ('trusted: Lean kernel; C01\'s tie for the skeleton; the harness. Assumed (explicit hypothesis, checked by tie + search): '
              'DspLocal. Not proved: coverage of the whole output by gain passes, the int16 sample relation through the soft '
              'clipper (both searched bit for bit), the value of the gain factor (C19 proper).')
TECHNIQUE = ('Lean 4 simulation over decoder histories + watermark invariant on event logs + abstract sample semantics, on the tied '
             'decoder skeleton; differential twin-decoder search on the real library (ASan+UBSan), bit-exact binary32 relation, '
             'whole-object state comparison')
