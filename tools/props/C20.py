"""C20 — DTX sends bounded runs of tiny packets when inactive and resumes at once (DESIGN.md §7.C20)."""
import json, os, re
import common

LEAN_MODULES = ['OpusProps.C20']
EXTENSIONS = ['C20onset']   # extension slices merged into this property's check (tools/EXT_BRIEF.md)
GEN = ['DtxConsts', 'VadConsts']
SOURCES = ['src/opus_encoder.c', 'src/opus_private.h', 'src/analysis.c', 'src/analysis.h', 'silk/enc_API.c',
           'silk/float/encode_frame_FLP.c', 'silk/fixed/encode_frame_FIX.c', 'silk/define.h', 'silk/tuning_parameters.h',
           'silk/structs.h', 'silk/control.h', 'silk/control_codec.c', 'silk/init_encoder.c', 'silk/VAD.c', 'silk/ana_filt_bank_1.c',
           'silk/sigm_Q15.c', 'silk/lin2log.c', 'silk/Inlines.h', 'silk/SigProc_FIX.h', 'silk/macros.h', 'silk/x86/VAD_sse4_1.c',
           'silk/x86/x86_silk_map.c', 'silk/x86/main_sse.h', 'celt/x86/x86cpu.c',
           'src/repacketizer.c', 'src/opus_decoder.c', 'celt/celt_decoder.c', 'include/opus_defines.h']
REQUIRED_THEOREMS = ['OpusProps.C20.' + t for t in (
    'dtx_first_decision', 'dtx_machine_run_bound', 'dtx_machine_refresh', 'dtx_machine_resume',
    'silk_onset', 'silk_run_bound', 'silk_refresh_resume',
    'dtx_packet_at_most_two_bytes', 'dtx_onset', 'dtx_run_bound', 'dtx_detector_switch_no_dtx', 'dtx_resume', 'dtx_resume_counter', 'dtx_resume_silk',
    'in_dtx_on_dtx_packets', 'counters_in_range', 'regular_iff_budget', 'regular_iff_three_bytes',
    'dtx_off_no_tiny', 'dtx_stream_decodes', 'vad_init_invariant', 'vad_total_in_range', 'vad_energy_fits_32bit',
    'vad_filter_state_32bit', 'vad_silence_inactive', 'silk_dtx_onset_on_silence')]
UNPROVED = []
RULE = ('seeded generation of whole encoder runs (Fs x channels x application x complexity 0..10 x VBR/CVBR/CBR x bitrate '
        'classes incl. auto/max/near the low-budget boundary x output buffer x all nine frame durations x DTX on/off x FEC x '
        'signal type x forced channels x max bandwidth x int16/float API x aligned/unaligned schedules of 2..7 speech/gap '
        'segments of 0..5 s, gap = digital silence or faint noise, optional mid-stream ctl changes): every opus_encode call is '
        'one correspondence case (packet-length class, is_silence, per-frame activity, SILK zero-byte answers, frame_to_celt, '
        'OPUS_GET_IN_DTX and the nine-field state slice after the call vs. the model fed with the recorded oracles from the '
        'recorded pre-state), plus one case per run folding the model over the whole run from a fresh encoder. Deterministic '
        'scenario families: silence-grid (speech 1 s / digital silence 1.6 s / speech 0.4 s over Fs>=16k x ch x app x nine '
        'durations x complexity {7,10} x VBR/CBR) and regime-switch (detector in charge changes inside a gap). A case is '
        'distinct by (detector in charge, packet class, mode, single/multi-frame).')
NOT_COVERED = [
    'that the tonality analyser classifies non-silent inactivity correctly (its decision is an oracle; the witness search takes '
    'the detector\'s own decision as premise). The SILK VAD is now inside the model (OpusModel.SilkVad, tied exactly to '
    'silk_VAD_GetSA_Q8_c and to the kernel the library dispatches to), with totality/ranges and "digital silence is inactive '
    'from the 8th zero frame on" proved; what it says about non-silent input is still not a theorem',
    'between the API and the VAD input: resampler, high-pass and stereo mid/side conversion of SILK turn digital silence at the '
    'API into exact zeros at the VAD input only after their memories have run out (not modelled); the end-to-end onset of '
    'SILK\'s DTX on digital silence is a calibrated search oracle (silk_dtx_onset, tools/c20_calibration.json)',
    'the "gray zone" of dtx_off_no_tiny: for packets longer than 20 ms the code emits 1-2 byte PLC packets below 300 bytes/s '
    'or 2400 bit/s (src/opus_encoder.c:1267) although buffer and bitrate would allow three bytes per frame: decided to be a '
    'violation of the property text, recorded as known finding C20-low-budget-long-frames (deterministic scenario low-budget-gray)',
    'that the SILK payload fits the frame budget (branch ec_tell(&enc) > (max_data_bytes-1)*8, the 2-byte TOC+00 packet): an '
    'explicit hypothesis (NoBust) of dtx_off_no_tiny / dtx_resume / dtx_onset, recorded per call as an oracle in the '
    'correspondence run; the real encoder violates it on tight buffers with FEC (known finding C20-silk-bust-2byte), any other '
    '<=2-byte packet with DTX off is reported as a violation by the witness search',
    'decoder side: durations are proved on the decoder skeleton (dtx_stream_decodes); near-silence in the gap and normal audio '
    'afterwards are DSP behaviour, witness search on the implementation only (calibrated levels, tools/c20_calibration.json)',
    'fixed-point build (silk/fixed/encode_frame_FIX.c has the same machine; complexity >= 10 threshold) is not built here']
ASSUMPTIONS = [
    'oracle contract OpusModel.Dtx.oracleOk (= shapeOk: the main silk_Encode call of a coded frame has prefillFlag 0 and 1..3 SILK '
    'frames of <= 20 ms, at most one prefill call before it; st->mode is set once the frame loop is reached): true by construction, '
    'monitored on every call of the correspondence run (the driver answers BAD-ORACLE). No coherence assumption between the '
    'call-level and the per-frame analysis results is made any more (the frame tail follows the call-level choice of detector, '
    'src/opus_encoder.c:2432)',
    'inner-encoder contract NoBust (the coded payload fits the frame budget) in dtx_off_no_tiny, dtx_resume and dtx_onset: an explicit '
    'hypothesis, recorded as an oracle per call; violated by the real SILK encoder on tight buffers with FEC (known finding '
    'C20-silk-bust-2byte)',
    'Regular c in dtx_off_no_tiny / dtx_onset / dtx_resume is the code\'s own budget rule (regular_iff_budget); it coincides with "three '
    'bytes per frame" for packets of at most 20 ms (regular_iff_three_bytes) and is stricter for longer packets (known finding '
    'C20-low-budget-long-frames)',
    'settings are not changed between the calls of a run in the run-level theorems (Cfg is fixed; dtx_run_bound and '
    'dtx_detector_switch_no_dtx hold from ANY state, hence after any history of setting changes, for the calls that follow); the '
    'per-call correspondence also covers runs with mid-stream ctl changes',
    'dtx_stream_decodes rests on the decoder skeleton and contracts of C01 (OpusProps.C01.decodeNative_duration / _plc_duration) and on '
    'the C11 model of gen_toc (OpusModel.EncDecide.genToc); that the bytes of a real DTX packet are dtxBytes is checked on the '
    'implementation by the witness search (dtx_packet_shape)',
    'float build, DRED off (the configuration of the baseline build)']
TRUSTED = ['harness/c20_dtx.c records the locals activity / is_silence / analysis_info->valid / to_celt of '
           'opus_encode_frame_native through the RESTORE_STACK macro (a no-op in this build) and wraps silk_Encode and '
           'run_analysis by #define before #including src/opus_encoder.c; nothing in /repo is edited']


WRAP = ['-Wl,--wrap=silk_VAD_GetSA_Q8_c', '-Wl,--wrap=silk_VAD_GetSA_Q8_sse4_1']


def _harness(ctx, variant, name='c20_dtx'):
    """Compile a harness; the shared library cache may be pruned by concurrent runs, so retry once with a fresh build."""
    cal = json.load(open(os.path.join(common.VERIF, 'tools', 'c20_calibration.json')))
    extra = ['-DC20_ACT_MIN_DB=(%r)' % cal['act_db_min'], '-DC20_ACT_MAX_DB=(%r)' % cal['act_db_max'],
             '-DC20_GAP_MAX_DB=(%r)' % cal['gap_db_max'], '-DC20_SILK_ONSET_MAX_MS=%d' % cal['silk_onset_max_ms']]
    if variant == 'san':
        extra.append('-fno-sanitize=float-cast-overflow')
    if name == 'c20_vadenc':
        extra = extra + WRAP
    for attempt in (0, 1):
        try:
            if not os.path.exists(ctx.lib(variant).a):
                ctx._libs.pop(variant, None)
            return ctx.harness(name, [name + '.c'], variant=variant, extra=extra)
        except RuntimeError:
            if attempt:
                raise
            ctx._libs.pop(variant, None)


def _tie(ctx, name, args, harness='c20_dtx', env=None):
    h = _harness(ctx, 'san', harness)
    if not os.path.exists(common.driver_path()):     # another owner is relinking the shared driver: rebuild and go on
        common.lake_build(['opusmodel'])
    tr = common.run_tie(name, [h] + args, timeout=3000, env=env)
    # harness statistics -> distribution
    for n in list(tr.notes):
        if n.startswith('tie-dist ') or n.startswith('vad-dist calls'):
            for kv in n.split(' ')[1:]:
                k, _, v = kv.partition('=')
                if v.isdigit():
                    tr.dist['impl/' + k] = tr.dist.get('impl/' + k, 0) + int(v)
    return tr


def ties(ctx):
    s = str(ctx.seed)
    out = []
    out.append(_tie(ctx, 'dtx-runs', ['tie', s, '70' if ctx.quick else '1200', '0' if ctx.quick else '1']))
    # deterministic scenarios through the same per-call comparison
    stride = 9 if ctx.quick else 1
    first = ctx.seed % stride
    out.append(_tie(ctx, 'dtx-silence-grid', ['scen', 'silence-grid', str(first), '648', str(stride), '0', 'tie']))
    out.append(_tie(ctx, 'dtx-regime-switch', ['scen', 'regime-switch', '0', '16', '1', '0', 'tie']))
    out.append(_tie(ctx, 'dtx-budget-boundary', ['scen', 'budget-boundary', '0', '400', '1', '0', 'tie']))
    out.append(_tie(ctx, 'dtx-silk-bust', ['scen', 'silk-bust', '0', '1', '1', '0', 'tie']))
    # the SILK VAD: real silk_VAD_GetSA_Q8_c (silk/VAD.c #included) vs OpusModel.SilkVad, every state field and output
    out.append(_tie(ctx, 'silk-vad', ['tie', s, '250' if ctx.quick else '4000'], harness='c20_vad'))
    # the same inside the real encoder (--wrap on both kernels of the run-time dispatch table), portable C and SSE4.1
    for cap in ('0', '4'):
        out.append(_tie(ctx, 'silk-vad-enc-arch%s' % cap, ['enc', s, '40' if ctx.quick else '500'], harness='c20_vadenc',
                        env={'OPUS_VERIF_ARCH_CAP': cap}))
    out.append(_tie(ctx, 'dtx-nan-pattern', ['scen', 'nan-pattern', '0', '11', '2', '0', 'tie']))
    return out


STATE_FIELDS = ['nb_no_activity_ms_Q1', 'prev_mode', 'silk_mode.useDTX', 'noSpeechCounter[0]', 'noSpeechCounter[1]',
                'silk nChannelsInternal', 'silk_mode.nChannelsInternal', 'prev_decode_only_middle', 'mode']


def _fields(ans):
    d = {}
    for tok in ans.split(' '):
        k, eq, v = tok.partition('=')
        if eq:
            d[k] = v
    m = re.search(r' st=(.*)$', ans)
    if m:
        d['st'] = m.group(1).split(' ')
    return d


def classify(ctx, tie, mm):
    """A model/implementation disagreement is turned into a property question by evaluating the C20 clauses on the
    implementation's own answer for that call (pre-state and oracles are in the input line)."""
    inp, impl, model = mm.get('input', ''), mm.get('impl', ''), mm.get('model', '')
    toks = inp.split(' ')
    why = None
    if impl in ('SANITIZER', 'ABORT', 'SIGSEGV') or impl.startswith('SANITIZER') or impl.startswith('ABORT'):
        why = 'the encoder trapped (%s) inside this call' % impl.split(' ')[0]
    elif len(toks) > 4 and toks[1] == 'vad':
        fi = _fields(impl)
        try:
            sa, tilt = int(fi.get('sa', '-1')), int(fi.get('tilt', '99999'))
            q = [int(x) for x in fi.get('q', '').split(',')]
            if not (0 <= sa <= 255) or not (-32768 <= tilt <= 32767) or any(not (0 <= x <= 32767) for x in q):
                why = 'silk_VAD_GetSA_Q8 output outside its documented range: ' + impl[:80]
        except ValueError:
            why = 'silk_VAD_GetSA_Q8 did not return: ' + impl[:80]
    elif len(toks) > 21 and toks[1] == 'call':
        use_dtx, fs, cx = toks[2] == '1', int(toks[3]), int(toks[5])
        pre = toks[10:19]
        digsil, valid0 = toks[19] == '1', toks[20] == '1'
        fi, fm = _fields(impl), _fields(model)
        tiny = fi.get('len') in ('1', '2')
        low_budget = fm.get('len') in ('1', '2') and 'acts=-' in model and 'nz=-' in model
        acts = fi.get('acts', '-').split(',')
        if impl.split(' ')[0] in ('INTERNAL_ERROR', 'BAD_ARG', 'BUFFER_TOO_SMALL') and not model.startswith(impl.split(' ')[0]):
            why = 'opus_encode returned %s where the skeleton expects a packet' % impl.split(' ')[0]
        elif tiny and not use_dtx and not low_budget and (fm.get('len') == 'N' or model.startswith('BAD-ORACLE')):
            why = 'dtx_off_no_tiny: DTX disabled, budget outside the low-budget class, yet the call returned %s byte(s)' % fi['len']
        elif tiny and use_dtx and fi.get('indtx') == '0' and not low_budget:
            why = 'in_dtx_on_dtx_packets: the call returned a %s-byte DTX packet but OPUS_GET_IN_DTX answers 0' % fi['len']
        elif tiny and '1' in acts and not low_budget:
            why = 'dtx_resume: the detector judged a coded frame active (activity=1), yet the call returned %s byte(s)' % fi['len']
        elif tiny and fm.get('len') == 'N' and use_dtx and not low_budget:
            # dropped although the counters of the detector in charge do not allow it
            st = fi.get('st', [])
            if fi.get('sil') in ('0', '1') and len(st) == 9 and len(pre) == 9:
                nb_pre = int(pre[0])
                if st[2] == '0' and not (nb_pre + 1 > 0 and int(st[0]) <= 1200 and int(st[0]) > 400):
                    why = ('dtx_run_bound/dtx_onset: frame dropped by decide_dtx_mode with nb_no_activity_ms_Q1 %d -> %s '
                           'outside (400, 1200]' % (nb_pre, st[0]))
                elif st[2] == '1' and not (10 < int(st[3]) <= 30):
                    why = 'silk_run_bound/silk_onset: frame dropped by SILK with noSpeechCounter %s -> %s outside (10, 30]' % (pre[3], st[3])
        elif (not tiny) and fm.get('len') in ('1', '2') and use_dtx and digsil and cx >= 7 and fs >= 16000 and not low_budget:
            why = ('dtx_onset: digital silence with the analysis running and the inactivity counter in (200 ms, 600 ms], yet the '
                   'call returned a normal packet (pre nb_no_activity_ms_Q1=%s)' % pre[0])
    if why is None:
        return None
    return {'suite': tie.name, 'input': inp, 'expected': model, 'observed': impl, 'why': why,
            'sanitizer_report': mm.get('sanitizer_report')}


def _run_search(h, args, env, wit, stats):
    rc, out = common.sh([h] + args, env=env, timeout=3000)
    for line in out.split('\n'):
        if line.startswith('W '):
            try:
                w = json.loads(line[2:])
            except ValueError:
                w = {'clause': 'unparsed', 'input': ' '.join(args), 'detail': line[2:200]}
            wit.append({'suite': 'dtx-search', 'input': w.get('input', ' '.join(args)),
                        'expected': 'C20 clause %s holds on the real encoder' % w.get('clause'),
                        'observed': 'call %s: %s' % (w.get('call'), w.get('detail')),
                        'why': 'property predicate %s fails on the implementation' % w.get('clause'),
                        'clause': w.get('clause'), 'harness_args': args})
        m = re.match(r'# stats (.*)', line)
        if m:
            for kv in m.group(1).split(' '):
                k, _, v = kv.partition('=')
                if v.lstrip('-').isdigit():
                    stats[k] = max(stats.get(k, 0), int(v)) if '_max' in k else stats.get(k, 0) + int(v)
    if rc != 0:
        tail = [l for l in out.split('\n') if 'runtime error' in l or 'ERROR: AddressSanitizer' in l or l.startswith('SUMMARY')]
        wit.append({'suite': 'dtx-search', 'input': ' '.join(args), 'expected': 'encoder/decoder run without trap',
                    'observed': '; '.join(tail[:4]) or ('exit code %d: %s' % (rc, out[-300:])),
                    'why': 'the implementation trapped (sanitizer report, assertion or crash) during the search',
                    'harness_args': args})


def search(ctx):
    """Property predicates evaluated on the implementation only (harness modes `search` and `scen`)."""
    h = _harness(ctx, 'plain')
    hs = _harness(ctx, 'san')
    env = {'ASAN_OPTIONS': 'detect_leaks=0:abort_on_error=0', 'UBSAN_OPTIONS': 'print_stacktrace=1'}
    wit, stats = [], {}
    q = ctx.quick
    # 1. corpus of past failures first: regime-switch and nan-pattern (both fixed in /repo), then the two known findings
    _run_search(h, ['scen', 'regime-switch', '0', '16', '1', '0'], env, wit, stats)
    _run_search(h, ['scen', 'nan-pattern', '0', '11', '1', '0'], env, wit, stats)
    _run_search(h, ['scen', 'silk-bust', '0', '1', '1', '0'], env, wit, stats)
    _run_search(h, ['scen', 'low-budget-gray', '0', '1', '1', '0'], env, wit, stats)
    # the low-budget guard at its boundaries (bitrate = 24*frame_rate -1/0/+1, buffer 2/3/4 bytes, long-frame floors), all durations
    _run_search(h, ['scen', 'budget-boundary', '0', '400', '1', '0'], env, wit, stats)
    # 2. digital silence at complexity >= 7 / Fs >= 16 kHz must reach DTX within the stated window (real detector)
    stride = 6 if q else 1
    _run_search(h, ['scen', 'silence-grid', str(ctx.seed % stride), '648', str(stride), '0'], env, wit, stats)
    # 3. generated runs (plain build for volume, sanitizer build for memory safety of the DTX paths incl. decoder)
    _run_search(h, ['search', str(ctx.seed), '300' if q else '3500', '0' if q else '1'], env, wit, stats)
    _run_search(hs, ['search', str(ctx.seed + 1000), '40' if q else '600', '0'], env, wit, stats)
    # 4. the SILK VAD on the implementation: output ranges, state bounds, digital silence becomes and stays inactive
    hv = _harness(ctx, 'plain', 'c20_vad')
    _run_search(hv, ['search', str(ctx.seed), '8000' if q else '150000'], env, wit, stats)
    # one witness per (clause, input)
    seen, uniq = set(), []
    for w in wit:
        k = (w.get('clause'), w['input'])
        if k not in seen:
            seen.add(k)
            uniq.append(w)
    return {'cases': stats.get('calls', 0), 'distinct': 12,
            'oracle': 'on the real encoder/decoder, per run: (onset) with the analysis running, after the encoder\'s own last '
                      'non-zero activity decision, the first DTX packet on digital silence starts in (200 ms - F, 200 ms + F) and '
                      'exists by 200 ms + F; (run bound) no run of <=2-byte DTX packets reaches 400 ms + F; (in-DTX) '
                      'OPUS_GET_IN_DTX=1 after every DTX packet; (resume) no DTX packet when the detector\'s decision was 1 in a '
                      'coded frame / SILK\'s VAD flag was 1 under SILK DTX; (DTX off) no <=2-byte packet outside the code\'s '
                      'low-budget class; no encode error; decoder returns the requested duration for DTX packets as given and as '
                      'losses, finite output, <= -45 dBFS inside digital-silence DTX gaps, active-speech level within -12..+6 dB '
                      'of the input',
            'stats': stats,
            'samples': ['search seed %d: %s' % (ctx.seed, ' '.join('%s=%d' % kv for kv in sorted(stats.items())))],
            'witnesses': uniq[:10]}


def replay(ctx, obj):
    """Re-run the recorded run / scenario / call on the implementation (and the call on the model)."""
    inp = obj.get('input', '')
    h = _harness(ctx, 'plain')
    env = {'ASAN_OPTIONS': 'detect_leaks=0:abort_on_error=0'}
    if inp.startswith('vad-seq '):
        hv = _harness(ctx, 'plain', 'c20_vad')
        rc, out = common.sh([hv, 'one', inp.split(' ')[1]], env=env)
        ws = [l for l in out.split('\n') if l.startswith('W ')]
        print('\n'.join(ws[:10] + [l for l in out.split('\n') if l.startswith('# stats')]))
        if ws:
            print('VIOLATION property=C20 replay reproduced (%d witness line(s))' % len(ws))
            return 1
        print('replay: the VAD predicates hold on this sequence now')
        return 0
    if inp.startswith('scenario ') or inp.startswith('run '):
        t = inp.replace('scenario regime-switch (found in) ', '').split(' ')
        if t[0] == 'scenario':
            args = ['scen', t[1], t[2], str(int(t[2]) + 1), '1', '1']
        else:
            args = ['one', t[1], '1', 'search', t[2] if len(t) > 2 else '0']
        rc, out = common.sh([h] + args, env=env)
        ws = [l for l in out.split('\n') if l.startswith('W ')]
        print('\n'.join(l for l in out.split('\n') if l.startswith(('W ', '# run', '# stats'))))
        if ws:
            print('VIOLATION property=C20 replay reproduced (%d witness line(s))' % len(ws))
            return 1
        print('replay: the property predicates hold on this run now')
        return 0
    if inp.startswith('dtx '):
        common.lake_build(['opusmodel'])
        print('input: %s\n  impl (recorded): %s\n  model (now):     %s' % (inp, obj.get('observed'), common.model_eval([inp])[0]))
        print('replay: re-running the whole check for the implementation side')
    import sys
    os.execv(sys.executable, [sys.executable, os.path.join(common.VERIF, 'tools', 'check.py'), ctx.prop,
                              '--tier', obj.get('tier', 'quick')])


LEVEL_TEXT = ('proof: Lean model of decide_dtx_mode, the SILK noSpeechCounter/inDTX machine, the DTX return paths and '
              'multi-frame dtx_count logic of opus_encode_native/opus_encode_frame_native and OPUS_GET_IN_DTX, with '
              'kernel-checked theorems for all activity schedules / all oracle values: onset window on digital silence '
              '(|t - 200 ms| < F for every API rate and frame duration), frame-level and SILK-level run bounds and refresh for '
              'every schedule, packet-level run bound for every run of calls whichever detector is in charge of which call (a call at '
              'which the detector changes never returns a DTX packet), resume under both detectors, in-DTX '
              'query true after every DTX packet of any run, no DTX/low-budget return with DTX off and a regular budget (the budget rule '
              'in bitrate/buffer terms), the decoder skeleton returns the exact duration for every DTX packet shape and the requested '
              'frame_size for losses; the SILK VAD (silk/VAD.c, fixed-point) as an exact model with totality, output ranges, 32-bit '
              'range lemmas, digital silence inactive after at most 7 frames from every reachable state and SILK DTX onset within '
              '10+7 frames; '
              'constants regenerated from silk/define.h; model tied to the real encoder per call and per run (oracles recorded '
              'from the running encoder).')
LEVEL_NOTE = ('trusted: Lean kernel; extractor + regen; the recording harness (macro/#define wrapping of the included '
              'opus_encoder.c) and line protocol; DSP decisions (silence, analysis validity, activity, mode, SILK VAD) are oracles '
              'constrained by the monitored shape contract oracleOk. Only searched, not proved: that digital silence reaches the '
              'detector as is_silence/activity=0 in the real encoder, DTX-off packet sizes of the inner encoders, decoder behaviour '
              'on the DTX stream.')
TECHNIQUE = 'Lean 4 theorems over executable counter-machine + encoder-skeleton model, regenerated constants, differential correspondence with recorded oracles, witness search on the real codec'
