"""C18 — SILK side information always dequantises to stable, in-range parameters (DESIGN.md §7.C18)."""
import re
import common

LEAN_MODULES = ['OpusProps.C18']
EXTENSIONS = ['C18stereo', 'C18chain']   # extension slices merged into this property's check (tools/EXT_BRIEF.md)
GEN = ['SilkNlsf', 'SilkSynth']
SOURCES = ['silk/NLSF_decode.c', 'silk/NLSF_stabilize.c', 'silk/NLSF2A.c', 'silk/LPC_fit.c',
           'silk/LPC_inv_pred_gain.c', 'silk/NLSF_unpack.c', 'silk/gain_quant.c', 'silk/decode_pitch.c',
           'silk/decode_parameters.c', 'silk/tables_NLSF_CB_NB_MB.c', 'silk/tables_NLSF_CB_WB.c',
           'silk/pitch_est_tables.c', 'silk/process_NLSFs.c', 'silk/NLSF_encode.c', 'silk/interpolate.c',
           'silk/SigProc_FIX.h', 'silk/macros.h', 'silk/Inlines.h', 'silk/log2lin.c', 'silk/lin2log.c',
           'silk/bwexpander_32.c', 'silk/sort.c', 'silk/table_LSF_cos.c', 'silk/define.h',
           'silk/pitch_est_defines.h', 'silk/structs.h', 'silk/tables_gain.c', 'silk/tables_pitch_lag.c',
           'celt/arch.h', 'silk/decode_core.c', 'silk/LPC_analysis_filter.c', 'silk/decoder_set_fs.c', 'silk/decode_frame.c',
           'silk/PLC.c', 'silk/PLC.h', 'silk/CNG.c', 'celt/stack_alloc.h', 'silk/tables_LTP.c', 'silk/tables_other.c',
           'silk/sum_sqr_shift.c', 'silk/bwexpander.c', 'silk/dec_API.c', 'silk/init_decoder.c', 'silk/stereo_MS_to_LR.c',
           'silk/resampler.c', 'silk/resampler_structs.h', 'silk/resampler_private_up2_HQ.c', 'silk/resampler_private_IIR_FIR.c',
           'silk/resampler_private_down_FIR.c', 'silk/resampler_private_AR2.c', 'silk/decode_parameters.c', 'silk/decode_pitch.c',
           'silk/float/pitch_analysis_core_FLP.c', 'silk/fixed/pitch_analysis_core_FIX.c', 'silk/float/find_pitch_lags_FLP.c']
REQUIRED_THEOREMS = ['OpusProps.C18.' + t for t in (
    'cb_wellformed', 'stabilize_post', 'nlsf_decode_ordered', 'nlsf2a_passes_stability',
    'decode_parameters_stable', 'gain_index_inv', 'gain_step_range', 'gain_step_nowrap',
    'gains_quant_dequant', 'gains_quant_index_in_range', 'nlsf_interp_enc_dec_agree', 'pitch_in_range',
    'pitch_enc_dec_agree',
    # range theorems: no 32-bit wrap, no truncating (opus_int16) cast
    'bwexpander32_nowrap', 'lpc_fit_int16', 'nlsf2a_nowrap_d10', 'nlsf2a_nowrap_d16_partial',
    'nlsf2a_d16_unordered_overflows', 'nlsf_decode_nowrap', 'nlsf_decode_domain_from_decoder', 'pitch_domain_from_decoder', 'log2lin_nowrap',
    'gains_dequant_nowrap', 'decode_pitch_nowrap', 'inverse_pred_gain_nowrap',
    'inverse_pred_gain_reflection_bounded', 'nlsf2a_reflection_bounded',
    # index-safety bridge to the synthesis interior
    'decode_core_indices_in_bounds', 'decode_core_safe_after_decode_pitch', 'plc_conceal_indices_in_bounds',
    'decode_frame_indices_in_bounds', 'silk_synthesis_indices_in_bounds', 'decode_parameters_indices_in_bounds',
    'decode_output_indices_in_bounds',
    # no read of uninitialised LTP state
    'decode_core_no_uninitialised_ltp_read', 'decode_core_initialised_after_decode_pitch', 'plc_conceal_no_uninitialised_ltp_read',
    'decode_frame_no_uninitialised_ltp_read')]
UNPROVED = ['nlsf2a_nowrap_d16 (the full statement is a comment block in OpusProps/C18.lean): for ORDERED NLSF vectors of order 16 '
            'the final subtraction a32_QA1[k] = -/+Qtmp - Ptmp (NLSF2A.c:125-126) fits 32 bits. Proved instead '
            '(nlsf2a_nowrap_d16_partial): everything before that subtraction fits for all in-range inputs, |a32_QA1| < 2^31.66, '
            'and everything after it (silk_LPC_fit, silk_bwexpander_32, the stabilisation loop, all (opus_int16) casts) is free of '
            'wrap and truncation whenever a32_QA1 fits; for order 10 there is no gap (nlsf2a_nowrap_d10). Ordering is necessary '
            '(nlsf2a_d16_unordered_overflows: the in-range input 32767,0,32767,0,... overflows in C, UBSan-confirmed); that it is '
            'sufficient is the line-spectral-pair interlacing theorem (|a_k| <= C(16,k) <= 12870, i.e. 0.79*2^31 in Q17), which '
            'needs root-location arguments out of reach here. Guarded by the search on ordered inputs (64-bit recomputation + '
            'UBSan on the real function; worst value found = the theoretical extreme 1686896640).',
            'real-arithmetic stability: inverse_pred_gain_reflection_bounded bounds the reflection coefficients of the '
            'FIXED-POINT step-down recursion by A_LIMIT = 0.99975; that the exact reflection coefficients of the real-coefficient '
            'filter are below 1 needs an error analysis of silk_INVERSE32_varQ / silk_RSHIFT_ROUND64 that is not done.',
            '32-bit range of the sums inside silk_NLSF_stabilize (centre frequencies, min/max centres: sums of at most 17 '
            'opus_int16 values, below 2^20) and of the NLSF interpolation are not stated as trace lemmas; their opus_int16 stores '
            'are covered by stabilize_post / nlsf_interp_enc_dec_agree.']
RULE = ('exhaustive: both NLSF codebooks x all 32 first-stage vectors x residual patterns (all-at-extreme and '
        'one-at-extreme for each coefficient at +-10/+-4/+-1, zero, alternating) + silk_NLSF_unpack for every index; all '
        '64 x (64+41) (prev_ind, index, conditional) gain steps; all contour indices x {8,12,16} kHz x {2,4} sub-frames x '
        'lag indices from 24 below to 24 above the coded range plus int16 extremes. stratified/random (seeded): residual '
        'grid +-10/+-4/corners/any int8; stabiliser on random, reversed, clustered, boundary, border-crowded int16 vectors '
        'with both real deltaMin tables and random admissible tables; silk_NLSF2A on stabilised, interpolated '
        '(via silk_decode_parameters) and raw in-range vectors; silk_LPC_fit / silk_bwexpander_32 / inverse prediction '
        'gain on random filters; gain chains and the quantiser on log-uniform and near-level gains. A case is distinct '
        'by its (operation, outcome kind) class.')
NOT_COVERED = ['index-safety bridge (OpusModel/SilkSynthIdx*.lean): the index expressions are a hand transcription (file:line cited), '
               'tied by recorded access extents; the stack arrays A_Q12_tmp / A_Q12 and the constant tables are in the model and '
               'the theorems but outside the recorder; value-level state (conc_energy, conc_energy_shift, randScale_Q14, prevGain_Q16, '
               'prev_gain_Q16, CNG_smth_Gain_Q16) is not modelled - the state tie compares lossCnt, prevSignalType, lagPrev, '
               'first_frame_after_reset, sPLC.{fs_kHz, pitchL_Q8, nb_subfr, subfr_length, last_frame_lost, rand_seed}, '
               'sCNG.{fs_kHz, rand_seed}; output stage (decode_output_indices_in_bounds): the resampler kernels are index contracts '
               '(input / output / state extents per call) tied by the recorder, not line-by-line models; VAD_flags / LBRR_flags, '
               'silk_LBRR_flags_iCDF_ptr, nFramesDecoded indexing and the LBRR / multi-frame loops of silk_Decode are not modelled '
               '(one frame per call, no FEC); initialised-before-read is proved only for the two fresh LTP state arrays sLTP_Q15 / '
               'sLTP_Q14 (not for sLTP, res_Q14, the resampler scratch buffers or the samplesOut1_tmp rows); OSCE / deep PLC builds, '
               'the clang variant of the sLPC_Q14 allocation are not covered',
               'encoder side: only the integer tail of silk_pitch_analysis_core (pitch_enc_dec_agree), the gain quantiser and the NLSF '
               'interpolation are modelled; that psEncCtrl->pitchL is not modified between the analyser and the NSQ / LTP analysis is a '
               'structural fact of the source checked only by the encoder/decoder search on mono SILK-only streams (no stereo, no LBRR, '
               'no DTX, 8/12/16 kHz API rates)',
               'silk_NLSF2A on UNORDERED in-range NLSF vectors of order 16: a32_QA1[k] = -/+Qtmp - Ptmp overflows opus_int32 '
               '(signed overflow, NLSF2A.c:125-126; theorem nlsf2a_d16_unordered_overflows). Not reachable: decoder and encoder '
               'pass ordered vectors (nlsf_decode_ordered; interpolation of ordered vectors is ordered), so not a violation of C18 '
               'and not patched (coordinator decision). Reproduction: feed the line `silkparams nlsf2a '
               '32767,0,32767,0,32767,0,32767,0,32767,0,32767,0,32767,0,32767,0` to harness c18_silkparams in mode `stdin` '
               '(UBSan: "-1593180160 - 1593180160 cannot be represented in type int"). For ordered order-16 vectors the bound '
               '|a32_QA1| <= 2^31-1 (hypothesis hA of nlsf2a_nowrap_d16_partial) is searched (hill climbing + UBSan, worst value '
               '1686896640 = 0.7855*2^31), not proved',
               'that a non-zero silk_LPC_inverse_pred_gain implies analytic stability of the real-coefficient filter: proved is '
               'the bound |rc| <= 0.99975 on every reflection coefficient of the FIXED-POINT step-down recursion '
               '(inverse_pred_gain_reflection_bounded) and the 1/MAX_PREDICTION_POWER_GAIN bound; the rounding-error analysis '
               'that would transfer this to exact arithmetic is not done',
               'the VALUES of the LTP codebook gains / LTP scaling of silk_decode_parameters and the bandwidth expansion after packet '
               'loss (silk_bwexpander on the Q12 filters) are not modelled (their table indices are: decode_parameters_indices_in_bounds)',
               'the encoder-side search that picks NLSF indices (silk_NLSF_encode / silk_NLSF_del_dec_quant) is not '
               'modelled: its reconstructed NLSFs are produced by a call to the modelled silk_NLSF_decode '
               '(NLSF_encode.c:119), which is a structural fact of the source, not a theorem',
               'range-decoder side: that decoded symbols are below the ICDF symbol count is property C17/C03; here only '
               'the table sizes are tied to those counts (cb_wellformed)']
ASSUMPTIONS = ['x86-64 build (OPUS_FAST_INT64 variants of the SMULW* macros, no ARM/MIPS overrides); two\'s-complement '
               'narrowing conversions and arithmetic right shift of negative values as implemented by gcc/clang',
               'vectors passed to silk_NLSF_stabilize / silk_NLSF2A hold order (10 or 16) opus_int16 values; '
               'previous-frame NLSFs lie in [0, 32767] (established by the same decoder on the previous frame)']
TRUSTED = ['NLSF2A ordering tables ordering10/ordering16 and the constants of silk_LPC_fit (10 iterations, 163838, 0.999 in '
           'Q16) are function-local in C and hand-transcribed in the model; they are covered by the differential run only']


def _wait_driver(secs=120):
    """The shared driver binary disappears for a moment while another owner's run relinks it; wait for it."""
    import os, time
    t0 = time.time()
    while not os.path.exists(common.driver_path()) and time.time() - t0 < secs:
        time.sleep(2)
    if not os.path.exists(common.driver_path()):
        common.lake_build(['opusmodel'])


def _synthidx_harness(ctx):
    """The index-safety tie: one TU (the repo's decode_core.c etc.) compiled with -fsanitize=thread code generation at
    -O0 and NO ThreadSanitizer runtime — the compiler-inserted __tsan_read/__tsan_write calls are defined by the
    harness as access recorders — linked with the recorder/driver TU and the plain library."""
    import os
    lib = ctx.lib('plain')
    out = os.path.join(common.scratch(), 'c18_synthidx_plain')
    if os.path.exists(out):
        return out
    obj = os.path.join(common.scratch(), 'c18_synthidx_inst.o')
    flags = [f for f in lib.flags if not f.startswith('-W') and f != '-O2' and not f.startswith('-fsanitize')
             and '_FORTIFY_SOURCE' not in f]
    cmd = [lib.compiler] + flags + ['-O0', '-w', '-U_FORTIFY_SOURCE', '-fsanitize=thread', '-c'] + lib.defines + \
        lib.includes + ['-I' + common.HARNESS, os.path.join(common.HARNESS, 'c18_synthidx_inst.c'), '-o', obj]
    rc, outp = common.sh(cmd)
    if rc != 0:
        raise RuntimeError('instrumented TU failed to compile: %s\n%s' % (' '.join(cmd), outp[-3000:]))
    common.cc_harness(lib, [os.path.join(common.HARNESS, 'c18_synthidx.c')], out, extra=[obj])
    return out


PITCH_WRAP = ['-Wl,--wrap=silk_pitch_analysis_core_FLP,--wrap=silk_pitch_analysis_core,--wrap=silk_decode_pitch']


def _pitchenc_harness(ctx):
    """The encoder's pitch analyser and silk_decode_pitch observed at link time (--wrap) inside opus_encode / opus_decode."""
    return ctx.harness('c18_pitchenc', ['c18_pitchenc.c'], variant='san', extra=PITCH_WRAP)


def _tie(*a, **k):
    _wait_driver()
    return common.run_tie(*a, **k)


def ties(ctx):
    h = ctx.harness('c18_silkparams', ['c18_silkparams.c'], variant='san')
    q = ctx.quick
    s = str(ctx.seed)
    out = []
    out.append(_tie('silkparams-nlsfdec', [h, 'nlsfdec', s, '15000' if q else '400000']))
    out.append(_tie('silkparams-stab', [h, 'stab', s, '40000' if q else '1000000']))
    out.append(_tie('silkparams-nlsf2a', [h, 'nlsf2a', s, '12000' if q else '250000']))
    out.append(_tie('silkparams-gains', [h, 'gains', s, '30000' if q else '600000']))
    out.append(_tie('silkparams-pitch', [h, 'pitch', '0' if q else '1']))
    out.append(_tie('silkparams-pitchenc', [_pitchenc_harness(ctx), 'tail', s, '12000' if q else '300000']))
    hs = _synthidx_harness(ctx)
    out.append(_tie('silkparams-synthidx-core', [hs, 'core', s, '4000' if q else '200000']))
    out.append(_tie('silkparams-synthidx-frames', [hs, 'frames', s, '1500' if q else '60000']))
    out.append(_tie('silkparams-synthidx-params', [hs, 'params', s, '6000' if q else '300000']))
    out.append(_tie('silkparams-synthidx-out', [hs, 'out', s, '1200' if q else '40000']))
    _branch_notes(h, s, out)
    return out


def _branch_notes(h, seed, ties_out):
    """Branch coverage of the generated cases, measured on the model (driver op `path`): which exit of the
    stabiliser / how many bandwidth-expansion rounds of NLSF2A a sample of the same generated inputs takes."""
    try:
        for mode, n, tie_name in (('stab', '6000', 'silkparams-stab'), ('nlsf2a', '3000', 'silkparams-nlsf2a')):
            rc, out = common.sh([h, mode, seed, n], env={'ASAN_OPTIONS': 'detect_leaks=0'})
            lines = []
            for l in out.split('\n'):
                t = l.split(' ')
                if len(t) > 3 and t[0] == 'I' and t[2] in ('stab', 'nlsf2a', 'invgain'):
                    lines.append('silkparams path ' + ' '.join(t[2:]))
            dist = {}
            for l, a in zip(lines, common.model_eval(lines)):
                k = l.split(' ')[2] + ':' + a
                dist[k] = dist.get(k, 0) + 1
            note = 'model-side branch coverage of the first %s generated cases: %s' % (
                n, ', '.join('%s=%d' % kv for kv in sorted(dist.items())))
            for t in ties_out:
                if t.name == tie_name:
                    t.notes.append(note)
                    t.dist.update({'path/' + k: v for k, v in dist.items()})
    except Exception as e:          # diagnostics only
        ties_out[-1].notes.append('branch coverage note unavailable: %s' % e)


def _ints(s):
    try:
        return [int(x) for x in s.split(',')] if s and s != '-' else []
    except ValueError:
        return None


DELTA = {}


def _delta(cb):
    if not DELTA:
        src = open(common.LEAN + '/OpusModel/Gen/SilkNlsf.lean').read()
        for k, n in (('nbmb', 'deltaMinQ15NbMb'), ('wb', 'deltaMinQ15Wb')):
            m = re.search(r'def %s : List Int := \[(.*?)\]' % n, src, re.S)
            DELTA[k] = [int(x) for x in m.group(1).replace('\n', ' ').split(',')]
    return DELTA[cb]


def _spaced(x, d):
    if x is None or len(d) != len(x) + 1 or not x:
        return False
    if x[0] < d[0] or x[-1] > 32768 - d[-1]:
        return False
    return all(x[i] - x[i - 1] >= d[i] for i in range(1, len(x)))


DECODER_OPS = {'synthcore', 'synthframe', 'synthparams', 'synthout', 'stab', 'unpack', 'nlsfdec', 'nlsf2a', 'invgain', 'lpcfit', 'bwexp32', 'gdeq', 'log2lin', 'pitch',
               'decparams'}


def _synthframe_why(model, impl):
    """Say which part of a silk_decode_frame case differs: recorded access extents of a phase, or the decoder state."""
    if impl == 'ABORT':
        return ('a celt_assert fired inside silk_decode_frame on a state / frame for which the index model (theorem '
                'silk_synthesis_indices_in_bounds) shows none can')
    def parts(s):
        d = dict(re.findall(r'(core|plc|top|cng|glue)\{([^}]*)\}', s))
        m = re.search(r' st=(.*)$', s)
        d['st'] = m.group(1) if m else ''
        return d
    a, b = parts(model), parts(impl)
    diff = [k for k in ('core', 'plc', 'top', 'cng', 'glue', 'st') if a.get(k) != b.get(k)]
    if diff == ['st'] or 'st' in diff:
        names = ['fs_kHz', 'nb_subfr', 'lossCnt', 'prevSignalType', 'lagPrev', 'first_frame_after_reset', 'sPLC.fs_kHz',
                 'sPLC.pitchL_Q8', 'sPLC.nb_subfr', 'sPLC.subfr_length', 'sPLC.last_frame_lost', 'sPLC.rand_seed',
                 'sCNG.fs_kHz', 'sCNG.rand_seed']
        x, y = a.get('st', '').split(' '), b.get('st', '').split(' ')
        bad = [names[i] for i in range(min(len(x), len(y), len(names))) if x[i] != y[i]]
        return ('decoder state after silk_decode_frame differs from the state model on which the invariant of '
                'silk_synthesis_indices_in_bounds is proved: %s%s' % (', '.join(bad) or 'state fields',
                                                                      '; phases: ' + ','.join(d for d in diff if d != 'st') if len(diff) > 1 else ''))
    return ('the element indices read / written in phase(s) %s of silk_decode_frame (recorded on the repo source) differ from '
            'the index model on which silk_synthesis_indices_in_bounds is proved' % ','.join(diff))


def classify(ctx, tie, mm):
    """A disagreement on a decoder-side operation is a failing input of the property: the Lean model of the
    dequantiser is proved to satisfy every clause, and these integer dequantisers are normative (an implementation
    that reconstructs other values no longer agrees with what encoders/other decoders reconstruct).  Where the
    operation has a direct post-condition it is also evaluated on the implementation's own answer."""
    toks = mm.get('input', '').split(' ')
    op = toks[1] if len(toks) > 1 else ''
    impl = mm.get('impl', '')
    why = None
    if impl in ('SANITIZER', 'ABORT', 'SIGSEGV'):
        why = 'the dequantiser trapped (%s: out-of-bounds table read, undefined behaviour or assertion) on this input' % impl
    elif op in ('synthcore', 'synthframe') and impl.startswith('OK ') and mm.get('model', '').startswith('OK ') and \
            re.sub(r' init\{[^}]*\}', '', impl) == re.sub(r' init\{[^}]*\}', '', mm.get('model', '')):
        why = ('silk_decode_core / silk_PLC_conceal read an element of the fresh LTP state array (%s) before writing it, or the other way '
               'round, against the model on which decode_core_no_uninitialised_ltp_read / plc_conceal_no_uninitialised_ltp_read are '
               'proved (model: %s)' % (' '.join(re.findall(r'init\{[^}]*\}', impl)), ' '.join(re.findall(r'init\{[^}]*\}', mm.get('model', '')))))
    elif op == 'synthout':
        why = ('the element indices the output stage of silk_Decode (frame buffers, silk_stereo_MS_to_LR, silk_resampler incl. its '
               'kernels, interleaving; recorded on the repo source) actually read / wrote differ from the index model of theorem '
               'decode_output_indices_in_bounds' + ('; a celt_assert fired' if impl == 'ABORT' else ''))
    elif op == 'synthparams':
        why = ('the element indices silk_decode_parameters actually read / wrote (side-information arrays, LTP codebooks, control '
               'arrays; recorded on the repo source) differ from the index model of theorem decode_parameters_indices_in_bounds')
    elif op == 'synthframe':
        why = _synthframe_why(mm.get('model', ''), impl)
    elif op == 'synthcore':
        if impl == 'ABORT':
            why = ('a celt_assert of silk_decode_core / silk_LPC_analysis_filter fired on parameters for which the index model '
                   '(theorem decode_core_indices_in_bounds) shows none can')
        else:
            why = ('the element indices silk_decode_core actually read / wrote (recorded by compiler-inserted access callbacks '
                   'on the repo source) differ from the index model on which decode_core_indices_in_bounds is proved: the '
                   'memory-safety theorem no longer speaks about this code')
    elif op == 'stab' and len(toks) >= 4:
        out = _ints(impl[3:]) if impl.startswith('OK ') else None
        d = _ints(toks[3])
        if not _spaced(out, d or []):
            why = 'silk_NLSF_stabilize output is not ordered with the minimum spacing'
    elif op == 'nlsfdec' and len(toks) >= 4:
        out = _ints(impl[3:]) if impl.startswith('OK ') else None
        if not _spaced(out, _delta(toks[2])):
            why = "silk_NLSF_decode output is not ordered with the codebook's minimum spacing"
    elif op in ('nlsf2a', 'lpcfit') and re.search(r'tr=([1-9]\d*)', impl):
        why = ('an (opus_int16) cast in silk_LPC_fit / the re-quantisation of silk_NLSF2A truncated on this input '
               '(%s casts; theorem lpc_fit_int16 proves 0 for the modelled code)' % re.search(r'tr=(\d+)', impl).group(1))
    elif op == 'nlsf2a':
        m = re.search(r'ig=(-?\d+)', impl)
        if not m or int(m.group(1)) == 0:
            why = 'silk_NLSF2A output fails silk_LPC_inverse_pred_gain != 0'
    elif op == 'gdeq':
        m = re.search(r'g=(\S+) prev=(-?\d+)', impl)
        if not m or not (0 <= int(m.group(2)) <= 63) or any(not (81920 <= g <= 1686110208) for g in (_ints(m.group(1)) or [0])):
            why = 'dequantised gain or LastGainIndex outside the quantiser range'
    elif op == 'pitchenc':
        m = re.match(r'OK enc=(\S+) li=(-?\d+) ci=(-?\d+) dec=(\S+)', impl)
        if m and m.group(1) != m.group(4):
            why = ('the per-sub-frame pitch lags the encoder\'s pitch analyser leaves in psEncCtrl->pitchL (%s) are not the lags '
                   'silk_decode_pitch rebuilds from the lagIndex/contourIndex it transmits (%s): encoder-side and decoder-side '
                   'long-term prediction run with different lags (theorem pitch_enc_dec_agree proves equality for the modelled tail)'
                   % (m.group(1), m.group(4)))
        else:
            why = ('the integer tail of silk_pitch_analysis_core (pitch_out / lagIndex / contourIndex from the selected lag and '
                   'contour) differs from the model on which pitch_enc_dec_agree is proved')
    elif op == 'pitch' and len(toks) >= 6:
        fs = int(toks[4])
        lags = _ints(impl[3:]) if impl.startswith('OK ') else None
        if lags is None or any(not (2 * fs <= l <= 18 * fs) for l in lags):
            why = 'pitch lag outside [2*Fs_kHz, 18*Fs_kHz]'
    if why is None:
        if op not in DECODER_OPS:
            return None       # encoder-side helper (gq, lin2log, interp): the search decides
        why = ('implementation reconstructs different values than the normative dequantiser (Lean model proved to '
               'satisfy C18); post-condition on this output still holds')
    return {'suite': tie.name, 'input': mm.get('input', ''), 'expected': mm.get('model'), 'observed': impl,
            'why': why, 'sanitizer_report': mm.get('sanitizer_report')}


class SearchCouldNotRun(Exception):
    pass


def _infra_failure(out, rc):
    """A search harness that could not run at all (sanitizer runtime cannot reserve its shadow memory, killed by the OOM
    killer / a signal before producing its summary) is a failure of the check's environment, not a failing input of the
    property: report it as such (the check still fails, as `witness search crashed`) instead of as a witness."""
    if 'ReserveShadowMemoryRange failed' in out or 'AddressSanitizer failed to allocate' in out or \
            (rc < 0 and '# search cases=' not in out):
        raise SearchCouldNotRun('search harness could not run (exit %d): %s' % (rc, out[-600:]))


def search(ctx):
    """Property predicates evaluated on the implementation only (harness mode `search`)."""
    h = ctx.harness('c18_silkparams', ['c18_silkparams.c'], variant='san')
    n = 20000 if ctx.quick else 400000
    env = {'ASAN_OPTIONS': 'detect_leaks=0:abort_on_error=0', 'UBSAN_OPTIONS': 'print_stacktrace=1'}
    rc, out = common.sh([h, 'search', str(ctx.seed), str(n)], env=env, timeout=3000)
    wit, cases, extra = [], 0, []
    for line in out.split('\n'):
        if line.startswith('V '):
            parts = line[2:].split(' | ')
            if len(parts) >= 3:
                wit.append({'suite': 'silkparams-search', 'input': parts[0], 'expected': parts[1], 'observed': parts[2],
                            'why': 'property predicate fails on the implementation: ' + parts[1]})
        m = re.match(r'# search cases=(\d+) violations=(\d+)', line)
        if m:
            cases = int(m.group(1))
        if line.startswith('# ordered-NLSF2A'):
            extra.append(line[2:])
    if rc != 0 and not wit:
        _infra_failure(out, rc)
        tail = [l for l in out.split('\n') if 'runtime error' in l or 'ERROR: AddressSanitizer' in l or l.startswith('SUMMARY')]
        wit.append({'suite': 'silkparams-search', 'input': 'search %d %d' % (ctx.seed, n),
                    'expected': 'dequantisers run without sanitizer report / abort',
                    'observed': '; '.join(tail[:4]) or ('exit code %d: %s' % (rc, out[-400:])),
                    'why': 'the implementation trapped (out-of-bounds read, undefined behaviour or assertion) during the search'})
    try:
        hp = _pitchenc_harness(ctx)
        n2 = 1500 if ctx.quick else 40000
        rc2, out2 = common.sh([hp, 'enc', str(ctx.seed), str(n2)], env=env, timeout=3000)
        c2 = 0
        for line in out2.split('\n'):
            if line.startswith('V '):
                parts = line[2:].split(' | ')
                if len(parts) >= 3:
                    wit.append({'suite': 'silkparams-search-pitchenc', 'input': parts[0], 'expected': parts[1], 'observed': parts[2],
                                'why': 'inside the real encoder/decoder the pitch lags differ: ' + parts[1]})
            m = re.match(r'# search cases=(\d+) violations=(\d+)', line)
            if m:
                c2 = int(m.group(1))
            if line.startswith('# pitchenc-enc'):
                extra.append(line[2:])
        cases += c2
        if rc2 != 0 and not any(w['suite'] == 'silkparams-search-pitchenc' for w in wit):
            _infra_failure(out2, rc2)
            tail = [l for l in out2.split('\n') if 'runtime error' in l or 'ERROR: AddressSanitizer' in l or l.startswith('SUMMARY')]
            wit.append({'suite': 'silkparams-search-pitchenc', 'input': 'enc %d %d' % (ctx.seed, n2),
                        'expected': 'encoder and decoder run without sanitizer report / abort',
                        'observed': '; '.join(tail[:4]) or ('exit code %d: %s' % (rc2, out2[-400:])),
                        'why': 'the implementation trapped while encoding / decoding the pitch search signals'})
    except RuntimeError as e:
        extra.append('pitchenc encoder search unavailable: %s' % str(e)[:200])
    return {'cases': cases, 'distinct': 11,
            'oracle': 'on the real library: silk_NLSF_decode outputs ordered with deltaMin spacing; silk_NLSF_stabilize '
                      'post-condition on arbitrary int16 vectors and admissible tables; silk_LPC_inverse_pred_gain of '
                      'silk_NLSF2A outputs (final and interpolated, via silk_decode_parameters) >= 1/MAX_PREDICTION_POWER_GAIN; '
                      'encoder-side silk_interpolate + NLSF2A == decoder-side; gains and LastGainIndex in range over all '
                      '64x(64+41) steps and random chains; silk_gains_dequant(silk_gains_quant(g)) == encoder reconstruction; '
                      'pitch lags in [2*Fs,18*Fs] for all contours/rates/sub-frame counts and lag indices -32768..32767; '
                      'mono SILK-only opus_encode_float on quasi-periodic signals (period near 18 ms / 2 ms / anywhere, drifting): '
                      'the lags every voiced call of silk_pitch_analysis_core inside the encoder returns == the lags '
                      'silk_decode_pitch produces inside opus_decode for the same packet (both observed with --wrap); '
                      'silk_NLSF2A on ORDERED vectors pushed by hill climbing towards the largest a32_QA1: the 64-bit '
                      'recomputation of a32_QA1 fits opus_int32, the real function runs clean under UBSan and none of its '
                      '(opus_int16) casts truncates (counted by wrapping silk_LPC_fit / silk_bwexpander_32 / '
                      'silk_LPC_inverse_pred_gain_c)',
            'samples': ['search %d %d -> %d cases, %d violations' % (ctx.seed, n, cases, len(wit))] + extra,
            'witnesses': wit[:10]}


def replay(ctx, obj):
    """Re-run the recorded input line on the implementation and on the model."""
    h = ctx.harness('c18_silkparams', ['c18_silkparams.c'], variant='san')
    lines = [obj.get('input', '')] + [w.get('input', '') for w in obj.get('other_witnesses', [])]
    lines = [l for l in lines if l.startswith('silkparams ')]
    if not lines:
        print('replay: nothing to re-run in %s; re-running the whole check' % obj.get('kind'))
        import os, sys
        os.execv(sys.executable, [sys.executable, os.path.join(common.VERIF, 'tools', 'check.py'), ctx.prop,
                                  '--tier', obj.get('tier', 'quick')])
    common.lake_build(['opusmodel'])
    # ops that cannot be re-run from their input line alone (the recorded line is an observation of a run of the real code on
    # generated inputs): regenerate the same stream (same seed, same tier) and look the line up
    quick = obj.get('tier', 'quick') == 'quick'
    seed = str(obj.get('seed', ctx.seed))
    streams = {'pitchenc': lambda: [_pitchenc_harness(ctx), 'tail', seed, '12000' if quick else '300000'],
               'synthcore': lambda: [_synthidx_harness(ctx), 'core', seed, '4000' if quick else '200000'],
               'synthframe': lambda: [_synthidx_harness(ctx), 'frames', seed, '1500' if quick else '60000'],
               'synthparams': lambda: [_synthidx_harness(ctx), 'params', seed, '6000' if quick else '300000'],
               'synthout': lambda: [_synthidx_harness(ctx), 'out', seed, '1200' if quick else '40000']}
    looked = {}
    for op in sorted(set(l.split(' ')[1] for l in lines if len(l.split(' ')) > 1) & set(streams)):
        rc, out = common.sh(streams[op](), env={'ASAN_OPTIONS': 'detect_leaks=0:abort_on_error=0'}, timeout=3000)
        cur = None
        for l in out.split('\n'):
            if l.startswith('I '):
                cur = l[2:]
            elif l.startswith('O ') and cur is not None:
                looked.setdefault(cur, l[2:])
                cur = None
    direct = [l for l in lines if l.split(' ')[1] not in streams]
    rc, out = common.sh([h, 'stdin'], input='\n'.join(direct) + '\n',
                        env={'ASAN_OPTIONS': 'detect_leaks=0:abort_on_error=0'})
    dimpl = [l[2:] for l in out.split('\n') if l.startswith('O ')]
    impl = []
    for l in lines:
        if l.split(' ')[1] in streams:
            impl.append(looked.get(l, '(the regenerated stream no longer contains this input)'))
        else:
            impl.append(dimpl.pop(0) if dimpl else '(no answer)')
    model = common.model_eval(lines)
    bad = 0
    for i, l in enumerate(lines):
        a = impl[i] if i < len(impl) else '(no answer)'
        print('input: %s\n  impl:  %s\n  model: %s' % (l, a, model[i] if i < len(model) else ''))
        if i >= len(impl) or a != model[i]:
            bad += 1
    if bad:
        print('VIOLATION property=C18 replay reproduced (%d of %d lines differ)' % (bad, len(lines)))
        return 1
    print('replay: implementation and model agree on the recorded input(s)')
    return 0


LEVEL_TEXT = ('proof: executable Lean model of the SILK side-information dequantisers (NLSF unpack/decode/stabilise, NLSF2A with '
              'LPC_fit, bwexpander_32 and the inverse-prediction-gain test, NLSF interpolation, gain quantiser/dequantiser with '
              'log2lin/lin2log, pitch lag decoder) with kernel-checked theorems for all inputs: stabiliser post-condition for '
              'every int16 vector and every admissible deltaMin table, ordered NLSFs for every index vector of both regenerated '
              'codebooks, NLSF2A output (incl. interpolated inputs) passes silk_LPC_inverse_pred_gain != 0 with the 1/1e4 gain '
              'bound, fits int16 and has every fixed-point reflection coefficient bounded by 0.99975, gain index invariant over '
              'arbitrary chains, encoder/decoder agreement of the gain quantiser and of NLSF interpolation, pitch lags in range; '
              'range theorems (no 32-bit wrap, no truncating opus_int16 cast, no division by zero) for NLSF_decode, NLSF2A '
              '(complete for order 10; for order 16 up to the final subtraction forming a32_QA1, and after it whenever a32_QA1 '
              'fits), LPC_fit, bwexpander_32, LPC_inverse_pred_gain, gains_dequant/log2lin and decode_pitch on the domain the '
              'symbol decoder guarantees (C03 index ranges); codebook facts re-checked on the regenerated tables; model tied to '
              'the code by an exact differential run under ASan/UBSan that also counts truncating casts on the real function; '
              'encoder/decoder agreement of the pitch lags (integer tail of silk_pitch_analysis_core composed with silk_decode_pitch); '
              'index-safety bridge: every array index of silk_decode_parameters, silk_decode_core, silk_PLC / silk_CNG, silk_decode_frame '
              'and the output stage of silk_Decode (stereo un-mixing, resampler call extents) is in bounds over every decoder history, and '
              'the fresh LTP state arrays are never read before being written, on an index model tied to the repo source by recorded '
              'access extents, allocation sizes and a written-byte map')
LEVEL_NOTE = ('trusted: Lean kernel; extractor + regen (tables go through gcc); the correspondence harness and line protocol; the '
              'trace functions of OpusProofs/SilkParamsRange*.lean that enumerate the C intermediates (read against the C source by '
              'hand). Not proved: that a32_QA1 of silk_NLSF2A fits 32 bits for ORDERED order-16 NLSFs (it overflows for unordered '
              'in-range input, which the decoder never produces) - search + UBSan only; that the fixed-point reflection-coefficient '
              'bound implies analytic stability of the real-coefficient filter.')
TECHNIQUE = 'Lean 4 theorems over an executable integer model + regenerated tables (decide +kernel) + differential correspondence'
