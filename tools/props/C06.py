"""C06 — the packet parser accepts exactly RFC 6716 framing (DESIGN.md §7.C06)."""
import common

LEAN_MODULES = ['OpusProps.C06']
GEN = []
SOURCES = ['src/opus.c', 'src/opus_decoder.c', 'src/opus_private.h', 'include/opus.h']
RULE = ('exhaustive enumeration of header shapes (representative TOC per code and frame duration x count/length '
        'byte classes x two further header bytes x fill byte x total length) in both framings, plus '
        'serialiser-driven structured packets with mutations; a case is distinct by its (op, outcome kind) class')
NOT_COVERED = ['the correspondence run compares RESULTS (every out-parameter) of opus_packet_parse_impl, not its intermediates: that each '
               'logged `let` of the instrumented parser parseImplT (OpusModel/FramingTrace.lean) is the C expression named next to it '
               '(src/opus.c line cited) is a reading of the source; what is proved is that parseImplT computes parseImpl and that '
               'its logs fit 32 / 16 bits (instrumented_parser_is_parser, int_ranges_of_parser)',
               'opus_packet_get_nb_samples / opus_packet_get_samples_per_frame are stated for the five API rates 8/12/16/24/48 kHz '
               'only; the size == NULL / out_toc == NULL / frames == NULL call variants of opus_packet_parse_impl and the public '
               'wrapper opus_packet_parse are covered by the correspondence run only',
               'has_lbrr_value states WHICH bits of the first frame byte opus_packet_has_lbrr returns; that these are the LBRR flags '
               'the SILK decoder reads (after n VAD flags per channel) is C09 lbrr_flag_position, not re-proved here']
TRUSTED = ['which C expression of opus_packet_parse_impl each logged intermediate of the instrumented model parser parseImplT stands '
           'for (src/opus.c line numbers cited in OpusModel/FramingTrace.lean and OpusProofs/FramingRange.lean): the correspondence '
           'run checks results, not intermediates',
           'the table `table2` in OpusProps/C06.lean is RFC 6716 Table 2 transcribed by hand (mode, bandwidth, frame duration per '
           'configuration number)']
ASSUMPTIONS = ['len argument equals the length of the supplied buffer (the harness uses exact-size heap blocks under ASan)']


def _wait_driver(secs=120):
    """The shared driver binary disappears for a moment while another owner's run relinks it; wait for it."""
    import os, time
    t0 = time.time()
    while not os.path.exists(common.driver_path()) and time.time() - t0 < secs:
        time.sleep(2)
    if not os.path.exists(common.driver_path()):
        common.lake_build(['opusmodel'])


def ties(ctx):
    h = ctx.harness('c06_framing', ['c06_framing.c'], variant='san')
    _wait_driver()
    if ctx.quick:
        return [common.run_tie('framing-enum', [h, 'enum', '0']),
                common.run_tie('framing-rand', [h, 'rand', str(ctx.seed), '60000']),
                common.run_tie('framing-helpers', [h, 'helpers'])]
    # thorough: the model side (one driver process per tie) is the bottleneck, so the enumeration is dealt
    # to 10 shards and the random stream to 6 sub-streams, run 8 at a time
    specs = [('framing-enum-%d/10' % k, [h, 'enum', '1', str(k), '10']) for k in range(10)]
    specs += [('framing-rand-%d' % k, [h, 'rand', str(ctx.seed * 1000 + k), '250000']) for k in range(6)]
    specs.append(('framing-helpers', [h, 'helpers']))
    return common.run_ties_parallel(specs, workers=8)


def classify(ctx, tie, mm):
    # The property says "the implementation computes the spec function": the Lean parser is proved
    # equivalent to the RFC 6716 serialiser spec, so any input on which the implementation answers
    # differently is a failing input of the property itself.
    return {'suite': tie.name, 'input': mm.get('input', ''), 'expected': mm.get('model'), 'observed': mm.get('impl'),
            'why': 'implementation differs from the RFC 6716 framing spec (Lean model proved sound and complete)'}

LEVEL_TEXT = ('full proof: the Lean transcription of opus_packet_parse_impl is proved sound and complete against a '
              'declarative RFC 6716 section 3 / Appendix B serialiser spec for every byte string in both framings, with all '
              'reported offsets in bounds; the TOC / packet helpers are stated by value (RFC Table 2 written out, frame and sample '
              'counts in both framings with the 120 ms rule, the LBRR flag bits); the transcription is tied to the code by exhaustive header-shape enumeration and '
              'structured fuzz with exact comparison of every out-parameter under ASan/UBSan')
LEVEL_NOTE = ('trusted: Lean kernel; the correspondence harness and line protocol; bytes modelled as naturals < 256, C int '
              'arithmetic as unbounded Int, justified by the range theorems int_ranges / int16_stores_lossless / '
              'int16_truncated_store_rejected for every len < 2^31; the traced values are the logs of the instrumented parser '
              'parseImplT, proved to compute parseImpl itself and evaluated by the driver for every `parse` case of the '
              'correspondence run (instrumented_parser_is_parser); which C expression each logged value stands for is read '
              'against src/opus.c by hand')
TECHNIQUE = 'Lean 4 theorem (soundness+completeness vs. RFC serialiser spec) + differential correspondence'

REQUIRED_THEOREMS = ['OpusProps.C06.parse_complete', 'OpusProps.C06.parse_sound', 'OpusProps.C06.parse_accepts_iff',
                     'OpusProps.C06.parse_accepts_iff_sd', 'OpusProps.C06.parse_in_bounds',
                     'OpusProps.C06.parse_reads_only_packet', 'OpusProps.C06.parse_err_kind',
                     'OpusProps.C06.encodeSize_eq_spec', 'OpusProps.C06.helpers_agree',
                     'OpusProps.C06.nb_frames_agrees', 'OpusProps.C06.has_lbrr_reads_only_packet',
                     'OpusProps.C06.int_ranges', 'OpusProps.C06.int16_stores_lossless',
                     'OpusProps.C06.int16_truncated_store_rejected',
                     # value-level statements of the helpers (Table 2, frame / sample counts in both framings, LBRR bit), the
                     # length coding as RFC content, and the range theorems on the instrumented parser itself
                     'OpusProps.C06.toc_helpers_table2', 'OpusProps.C06.nb_frames_spec', 'OpusProps.C06.nb_frames_agrees_any',
                     'OpusProps.C06.nb_samples_of_parse', 'OpusProps.C06.nb_samples_invalid_iff', 'OpusProps.C06.has_lbrr_value',
                     'OpusProps.C06.has_lbrr_err', 'OpusProps.C06.encode_size_roundtrip',
                     'OpusProps.C06.instrumented_parser_is_parser', 'OpusProps.C06.int_ranges_of_parser']
UNPROVED = []
