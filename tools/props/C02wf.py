"""C02wf — extension slice of C02: packet well-formedness of every packet the real encoder emits.

The tie hooks the recording harness of C05/C02 (harness/c02_wf.c wraps harness/c05_encsize.c): every packet
opus_encode_native returns is parsed by the Lean parser (Opus.Framing.parseImpl) and compared, field by field, with what
opus_packet_parse_impl / opus_packet_get_nb_samples of the real library report, and with the header / frame lengths / size
the encoder skeleton (Opus.EncSkel.encodeNative) predicts for the same recorded call."""
import os, re, time
import common
from props import C05 as _c05

LEAN_MODULES = ['OpusProps.C02Wf']
GEN = ['EncTables']
SOURCES = _c05.SOURCES + [s for s in ('src/repacketizer.c', 'src/opus.c') if s not in _c05.SOURCES]
ASSUMPTIONS = _c05.ASSUMPTIONS
TRUSTED = _c05.TRUSTED
REQUIRED_THEOREMS = ['OpusProps.C02Wf.' + t for t in ('contract_is_repack_model', 'repack_run_is_contract', 'wellformed_multiframe',
                                                      'packet_pad_is_run', 'pad_contract_is_model',
                                                      'frame_packet_is_contract_output', 'wellformed_low_budget',
                                                      'encode_wellformed_multiframe', 'encode_wellformed_single', 'encode_wellformed',
                                                      'encode_wellformed_multiframe_pad', 'encode_wellformed_low_budget')]
UNPROVED = [
    'packet_pad_is_run keeps the frame count of the cat as a hypothesis (hn); pad_contract_is_model / wellformed_low_budget are the '
    'hypothesis-free statements for unpadded input packets (the only way the encoder calls opus_packet_pad)']

RULE = ('every packet the real encoder returns in the encoder-skeleton runs (harness c02_wf = the recording harness c05_encsize with a '
        'pass-through hook on the parse of the returned packet): random (Fs, channels, application) encoders with random ctl histories, '
        'int16/int24/float input, 8 signal kinds, max_data_bytes 1..4000 with boundary emphasis (ASan/UBSan build); multi-frame VBR '
        'packets with sub-frames >= 253 bytes nearly filling max_data_bytes (+-8 around a probe packet); long frames x high rates x '
        'consecutive max_data_bytes around the 252-byte length-code boundary and the 1275-byte frame cap (code 0/1/2/3, CBR and VBR, '
        'padded); redundancy signalling under tight budgets. For each packet the Lean parser must report the count, ToC, frame sizes, '
        'payload offset and packet offset opus_packet_parse_impl reports, count x samples_per_frame must equal '
        'opus_packet_get_nb_samples and the submitted frame_size, every frame <= 1275 bytes, the parse must consume the whole '
        'packet, and the skeleton must have predicted exactly this header, these lengths, this size and zero padding. '
        'A case is distinct by (config, code, frame count).')
NOT_COVERED = ['the frame payload bytes themselves (SILK / CELT symbols): only header, lengths, offsets, padding and duration are '
               'compared; payload lock-step is the search of C02 proper',
               'multistream / projection packets (self-delimited concatenation): the hook sees the per-stream packets only',
               'packets carrying extensions in the padding (DRED / QEXT builds): the theorems are for the extension-free calls '
               '(NULL, 0) the non-DRED encoder makes; zero padding is proved to carry no extensions',
               'in-place operation of opus_packet_pad (source and destination overlap): the C07 model owns copies of the frames '
               '(covered by C07\'s RepackInPlace theorems, not re-stated here)',
               'a change that keeps the packet parseable with the right duration but shifts frame boundaries (e.g. a wrong length '
               'code) is reported as a broken correspondence (skeleton misprediction), the C02 violation itself is then found by the '
               'lock-step decode of C02 proper']
LEVEL_TEXT = ('partial: kernel-checked (OpusProps.C02Wf): the repacketiser contract the encoder skeleton used is no longer an assumption — '
              'Repack.emit (C07 model of opus_repacketizer_out_range_impl) equals the contract outRange byte for byte incl. errors for all '
              'frames/maxlen/pad; init + cat of every sub-packet + out_range_impl on the model accepts every cat and returns the contract\'s '
              'bytes; padSpec equals the model of opus_packet_pad for every new_len; every frame call returns a contract-shaped sub-packet; '
              'the low-budget ToC-only packet, unpadded and padded through the model, parses with count x spf = frame_size; and every success '
              'return of opus_encode_native emits bytes that are such a run\'s output, parse (C06 parser) with the chosen ToC, count = number '
              'of sub-frames, sizes <= 1275, the frame contents byte for byte, count x samples_per_frame = frame_size, consuming ret bytes. '
              'The tie checks on every packet the real encoder emitted that the Lean parser and opus_packet_parse_impl agree, that it has the '
              'submitted duration, and that header / lengths / size / zero padding are the skeleton\'s prediction.')
LEVEL_NOTE = _c05.LEVEL_NOTE + ' Payload symbols are opaque (any frame contents of the recorded lengths).'
TECHNIQUE = 'Lean 4 theorems composing the encoder skeleton (C05/C02), the repacketiser model (C07) and the parser (C06); differential replay of every emitted packet'

_OFF = 900   # seed offset of this slice


def ties(ctx):
    q, s = ctx.quick, ctx.seed + _OFF
    hs = _c05._h(ctx, 'san', 'c02_wf')
    hp = _c05._h(ctx, 'plain', 'c02_wf')
    specs = [('wf-rand', [hs, 'rand', str(s), '2000' if q else '20000']),
             ('wf-fill', [hp, 'fill', str(s), '0' if q else '1']),
             ('wf-redsw', [hp, 'redsw', str(s), '400' if q else '2500']),
             ('wf-bound', [hp, 'bound', str(s), '0' if q else '1'])]
    return [common.run_tie(name, cmd) for name, cmd in specs]


def _pkt_len(i):
    p = i.get('pkt', '')
    return (len(p) - 1) // 2 if p.startswith('x') else -1


def _short_input(inp):
    """The input line with the packet hex cut to <= 400 characters (st / frame / out and the oracles stay)."""
    toks = []
    for t in inp.split(' '):
        if t.startswith('pkt=') and len(t) > 404:
            t = t[:404] + '...(%d bytes)' % ((len(t) - 5) // 2)
        toks.append(t)
    return ' '.join(toks)


def check_case(inp, impl):
    """C02 (well-formedness clauses) on what the REAL library reported for one emitted packet.  None or (expected, why)."""
    if impl in ('SANITIZER', 'ABORT', 'SIGSEGV'):
        return ('encode call returns a packet', 'the encode call trapped (%s)' % impl)
    i, o = _c05._kv(inp), _c05._kv(impl)
    try:
        st = [int(x) for x in i['st'].split(',')]
        frame, out = int(i['frame']), int(i['out'])
        parse, nbs, off = o['parse'], o['nbs'], int(o['off'])
    except (KeyError, ValueError):
        return None
    fs = st[0]
    if frame <= 0 or out <= 0 or not _c05.LEGAL(fs, frame):
        return None
    n = _pkt_len(i)
    if not re.fullmatch(r'\d+', parse) or int(parse) < 1:
        return ('a well-formed packet', 'opus_packet_parse_impl rejects the %d-byte packet the encoder returned (%s)' % (n, parse))
    if not re.fullmatch(r'-?\d+', nbs) or int(nbs) != frame:
        return ('packet duration %d samples' % frame, 'opus_packet_get_nb_samples reports %s for the returned packet' % nbs)
    sizes = [int(x) for x in o.get('sizes', '-').split(',')] if o.get('sizes', '-') not in ('', '-') else []
    if any(x > 1275 for x in sizes):
        return ('every frame <= 1275 bytes', 'the returned packet has a frame of %d bytes' % max(sizes))
    if n >= 0 and off != n:
        return ('the parse consumes the %d bytes returned' % n, 'opus_packet_parse_impl consumes %d of the %d bytes returned' % (off, n))
    return None


def classify(ctx, tie, mm):
    bad = check_case(mm.get('input', ''), mm.get('impl', ''))
    if not bad:
        return None
    return {'suite': tie.name, 'input': _short_input(mm.get('input', '')), 'expected': bad[0], 'observed': mm.get('impl', '')[:400],
            'why': bad[1], 'model': mm.get('model', '')[:400], 'sanitizer_report': mm.get('sanitizer_report')}


def search(ctx):
    """The C02 well-formedness predicate evaluated on the implementation's own answers (no model)."""
    q, s = ctx.quick, ctx.seed + _OFF
    hp = _c05._h(ctx, 'plain', 'c02_wf')
    runs = [('wf-search-sweep', [hp, 'sweep', str(s), '0' if q else '1'])]
    if not q:
        runs.append(('wf-search-ms', [hp, 'ms', str(s), '1500']))
    wit, cases, combos = [], 0, set()
    codes, padded, multi = [0, 0, 0, 0], 0, 0
    samples = []
    for suite, cmd in runs:
        rc, out = common.sh(cmd, timeout=3000)
        c = ' '.join(['c02_wf'] + cmd[1:])
        inp = None
        for line in out.split('\n'):
            if line.startswith('I encskel wf-native '):
                inp = line[2:]
            elif line.startswith('O ') and inp is not None:
                impl = line[2:].strip()
                cases += 1
                o, i = _c05._kv(impl), _c05._kv(inp)
                try:
                    toc, cnt = int(o['toc']), int(o['parse'])
                    combos.add((toc >> 3, toc & 3, cnt))
                    codes[toc & 3] += 1
                    multi += cnt >= 2
                    p = i.get('pkt', 'x')
                    if (toc & 3) == 3 and len(p) >= 5 and int(p[3:5], 16) & 0x40:
                        padded += 1
                except (KeyError, ValueError):
                    pass
                bad = check_case(inp, impl)
                if bad and len(wit) < 10:
                    wit.append({'suite': suite, 'input': _short_input(inp), 'command': c, 'expected': bad[0], 'observed': impl[:400],
                                'why': bad[1]})
                if len(samples) < 2:
                    samples.append('%s => %s' % (_short_input(inp)[:300], impl[:200]))
                inp = None
        if rc != 0 and not wit:
            wit.append({'suite': suite, 'input': ' '.join(cmd[1:]), 'command': c, 'expected': 'every encode call returns',
                        'observed': 'exit code %d: %s' % (rc, out[-300:]),
                        'why': 'the codec trapped or the harness self-check failed during the well-formedness search'})
    return {'cases': cases, 'distinct': len(combos),
            'distribution': ['code0=%d code1=%d code2=%d code3=%d' % tuple(codes), 'multi-frame(count>=2)=%d padded=%d' % (multi, padded)],
            'oracle': 'on the real library, for every packet opus_encode_native returned for legal arguments: opus_packet_parse_impl '
                      'accepts it, opus_packet_get_nb_samples == frame_size, every frame <= 1275 bytes, and the parse consumes exactly '
                      'the returned length (no trailing bytes)',
            'samples': samples, 'witnesses': wit[:10]}
