"""C03 — decoder output conforms to the RFC 6716 reference decoder (DESIGN.md §7.C03, §10).

Bit-stream half, stage 1 (SILK symbol layer): the Lean model OpusModel/SilkSyms.lean is the frozen normative
reference for which symbols the decoder reads, in which order, with which (FROZEN, lean/OpusModel/SilkSymsFrozen.lean) probability tables; the real
opus_decode must reproduce every decoded index, pulse array, header flag and range-coder state on arbitrary bytes.
Stage 2 (CELT symbol layer): OpusModel/CeltSyms.lean (frame header) and OpusModel/CeltBands.lean (bit allocation via C17's
OpusModel/CeltAlloc.lean driven by the range decoder, fine energy, quant_all_bands, anti-collapse bit, energy finalisation): the
model predicts every entropy-decoder call and the final range of every CELT-only, hybrid and redundancy frame from the bytes.
PCM half: no reference decoder or RFC test vectors exist offline; a committed self-reference corpus compared
with the repo's own src/opus_compare.c guards it as a REGRESSION ORACLE (not a proof, not the RFC vectors)."""
import gzip, json, os, re, shutil, subprocess
import common

LEAN_MODULES = ['OpusProps.C03']
EXTENSIONS = ['C03silkresamp', 'C03silkcore', 'C03silkpipe']   # extension slices merged into this property's check (tools/EXT_BRIEF.md)
GEN = ['SilkIcdf', 'SilkSyms', 'CeltTables']
SOURCES = ['silk/dec_API.c', 'silk/decode_indices.c', 'silk/decode_pulses.c', 'silk/shell_coder.c', 'silk/code_signs.c',
           'silk/stereo_decode_pred.c', 'silk/NLSF_unpack.c', 'silk/decode_frame.c', 'silk/decoder_set_fs.c',
           'silk/tables_other.c', 'silk/tables_gain.c', 'silk/tables_LTP.c', 'silk/tables_pitch_lag.c',
           'silk/tables_pulses_per_block.c', 'silk/tables_NLSF_CB_NB_MB.c', 'silk/tables_NLSF_CB_WB.c', 'silk/tables.h',
           'silk/define.h', 'silk/structs.h', 'silk/control.h', 'silk/API.h', 'silk/main.h',
           'src/opus_decoder.c', 'src/opus.c', 'src/opus_compare.c', 'celt/entdec.c', 'celt/entcode.h', 'celt/entcode.c',
           'celt/celt_decoder.c', 'celt/quant_bands.c', 'celt/laplace.c', 'celt/celt.c', 'celt/celt.h', 'celt/rate.c',
           'celt/static_modes_float.h', 'celt/modes.c', 'celt/bands.c', 'celt/rate.h', 'celt/cwrs.c']
WRAPPED = ['silk_Decode', 'silk_decode_indices', 'silk_decode_pulses', 'silk_stereo_decode_pred',
           'silk_stereo_decode_mid_only', 'celt_decode_with_ec', 'celt_decode_with_ec_dred',
           'ec_dec_bit_logp', 'ec_dec_uint', 'ec_dec_bits', 'ec_dec_icdf', 'ec_decode_bin', 'ec_decode', 'ec_dec_update',
           'clt_compute_allocation']
WRAP = ['-Wl,' + ','.join('--wrap=' + s for s in WRAPPED)]

REQUIRED_THEOREMS = ['OpusProps.C03.' + t for t in (
    'silkSyms_total', 'silkSyms_indices_in_range', 'silkSyms_decode_indices_in_range', 'silkSyms_tables_wellformed',
    'silkSyms_tables_frozen_eq_repo', 'silkSyms_lsb_loop_exits', 'silkSyms_pulses_fit_int16',
    'silkSyms_symbols_history_free', 'silkSyms_lag_index_packet_bound', 'celtHdr_total_in_range', 'celtHdr_total_arbitrary_bytes',
    'celtHdr_hybrid_total_in_range', 'celtHdr_tables_frozen_eq_repo', 'celtBands_no_fault',
    'celtFrame_total', 'celtFrame_total_arbitrary_bytes', 'celtFrame_preserves_J',
    'celtBands_reads_within_tracked_budget')]
UNPROVED = [
    'silkSyms_lag_index_tight_bound: lagIndex in [-16, 277]. Proved is the packet-level bound [-48, 321] '
    '(silkSyms_lag_index_packet_bound, a counting argument plus history-freeness, enough for the opus_int16 store); the sharper '
    'interval needs the chain-depth invariant "at most two conditional steps after an absolute lag" as a single-run '
    'invariant and is not proved',
    'silkSyms_lockstep (design priority P1): the decoder model reads back exactly the symbols the mirrored encoder calls of '
    'silk_encode_indices / silk_encode_pulses wrote — a corollary of C08 (range coder) that is out of this property\'s scope; '
    'on the implementation it is searched (encoder final range == decoder final range), not proved',
    'celtFrame_overrun_bound (conjecture): ec_tell(dec) <= 8*len + 1 at the end of every CELT frame (overrun of the band data at most '
    'groups-1 <= 7 eighth-bits), and no path other than the PVQ cost drift overruns (theta cost vs b, stereo N=2 sign bit). `ec_tell <= '
    '8*len` itself is FALSE (tools/c03_budget_packets.txt; the decoder used to return OPUS_INTERNAL_ERROR there, fixed in 59715713: it sets '
    'st->error and returns the frame, and the model follows). PROVED is the accounting the code documents '
    '(celtBands_reads_within_tracked_budget): remaining_bits = total_bits - ec_tell_frac - 1 per band, a PVQ index is read only if '
    'remaining_bits stays >= 0 after charging the CACHED cost pulses2bits(q), an N=1 sign bit only while 8 is left. The cached cost bounds '
    'the true advance of ec_tell_frac for 327 of the 329 reachable cache entries; for (N,K) = (16,5) and (12,15) ec_dec_uint codes V(N,K) '
    'as ((V-1)>>ftb)+1 symbols x 2^ftb raw values, 0.034 resp. 0.0003 eighth-bits more than log2_frac(V) rounded up, so ec_tell_frac '
    'advances by cached+1 in about 3.4 % of the (16,5) reads; consecutive reads telescope, reads separated by a theta symbol do not, and '
    'the single eighth-bit of slack covers one such event per band. The bound needs a cost calculus for the range coder (C08) that does '
    'not exist; the budget search (random / encoder / synthesised frames) reports any frame on which the decoder errors',
    'pcm_within_tolerance: the PCM clause is a statement about float DSP relative to an external reference decoder that does not '
    'exist offline; guarded by the self-reference corpus (regression oracle) only',
]
RULE = ('correspondence on whole packets through opus_decode: (a) arbitrary, low-entropy and structured bytes (a SILK payload '
        'serialiser that steers into deep LSB chains, NLSF extension symbols, drifting delta-coded lags, every LBRR flag pattern '
        'and rate level) behind every SILK-only and hybrid TOC (NB/MB/WB/SWB/FB x 10/20/40/60 ms x mono/stereo), packet codes '
        '0-3 with padding, truncation and bit flips, normal and FEC decoding, fresh and running decoders at all output rates; '
        '(b) real encoder streams (VOIP/AUDIO, 6-96 kb/s, FEC+loss, DTX, stereo, forced modes, mid-stream mode/bandwidth/channel '
        'changes) decoded as is, after a simulated loss with decode_fec=1, mutated, and repacketised into padded multi-frame '
        'packets. Every decoded index, pulse, flag, stereo predictor, condCoding/FrameIndex argument, rng/ec_tell after every '
        'silk_Decode call, redundancy frame position and the CELT entry state are compared exactly. Stage 2: for every CELT-only, '
        'hybrid and redundancy frame every entropy-decoder call of the header (function, parameters, table, returned value) up '
        'to clt_compute_allocation and the arguments / rng / ec_tell_frac with which that function is entered; then the calls '
        'made inside clt_compute_allocation and everything it returns (codedBands, intensity, dual_stereo, balance, pulses[], '
        'fine_quant[], fine_priority[]), every call of unquant_fine_energy, quant_all_bands (theta with its step / uniform / '
        'triangular PDF incl. ec_decode + ec_dec_update arguments, inv flag, N=1 and N=2 sign bits, ec_dec_uint(V(N,K)) of every '
        'partition), the anti-collapse bit and unquant_energy_finalise, the range at the end of the frame, and '
        'OPUS_GET_FINAL_RANGE of the packet (CELT-only, hybrid, SILK-only with and without redundancy). '
        'distinct = (op, outcome) classes')
NOT_COVERED = [
    'PCM within the RFC 6716 tolerance of the normative reference decoder: not decidable by this technique offline (no reference '
    'decoder, no test vectors, no formal float semantics). The PCM clause is guarded by a REGRESSION CORPUS ONLY: ~60 short streams '
    'decoded by the tree under test and compared with what the unchanged tree produced (bit-exact at 48 kHz, opus_compare at the other '
    'rates). The streams were chosen to excite decoder-side clamps / saturations / state clearing (bandwidth ladders in mono and '
    'stereo, pitch at the 2 ms / 18 ms limits, hard-panned full-scale stereo, full-scale and +/-1 LSB material, onsets after silence, '
    'every mode transition), but a corpus can never be complete: a decoder change that only manifests on material outside it is missed',
    'CELT: the decoded PVQ vectors, collapse masks, folding, anti-collapse processing and all of the DSP (only what decides '
    'which symbols are read with which parameters is modelled); the band-allocation tables are C17\'s (read from the '
    'regenerated Gen/CeltTables.lean by OpusModel/CeltAlloc.lean; their frozen copy is compared by celtHdr_tables_frozen_eq_repo)',
    'SILK parameter dequantisation and synthesis (C18 covers dequantisation; synthesis DSP is an oracle)',
    'fixed-point build of the tree: only the float build configured by CMake defaults is exercised',
    'decode_fec=1 with a frame_size different from the packet frame duration (the PLC prefix reads no symbols)',
]
ASSUMPTIONS = [
    'the harness observes the symbol layer at the call boundaries of silk_Decode, silk_decode_indices, silk_decode_pulses, '
    'silk_stereo_decode_pred, silk_stereo_decode_mid_only, celt_decode_with_ec, celt_decode_with_ec_dred, clt_compute_allocation '
    'and the entropy-decoder entry points ec_dec_bit_logp / ec_dec_uint / ec_dec_bits / ec_dec_icdf / ec_decode_bin / '
    'ec_decode / ec_dec_update (GNU ld --wrap); '
    'these functions must remain external symbols called across translation units',
    'x86-64, little-endian, gcc; C int arithmetic of the symbol layer modelled unbounded (range theorems show every stored '
    'index fits its C type)',
]
TRUSTED = ['harness/c03_silksyms.c recording wrappers and the printer of Driver/SuiteSilkSyms.lean',
           'OpusModel/CeltAlloc.lean, OpusModel/Cwrs.lean (C17: clt_compute_allocation, V(N,K) table access, bits2pulses) — used '
           'read-only; C03\'s differential run compares their results inside whole frames as well',
           'OpusModel/RangeCoder.lean (range decoder model; validated by C08\'s own correspondence suite)']


def _harness(ctx, variant='san'):
    return ctx.harness('c03_silksyms', ['c03_silksyms.c'], variant=variant, extra=WRAP)


def ties(ctx):
    h = _harness(ctx, 'san')
    q = ctx.quick
    s = str(ctx.seed)
    out = [common.run_tie('silksyms-rand', [h, 'rand', s, '40000' if q else '400000']),
           common.run_tie('silksyms-real', [h, 'real', s, '200' if q else '3000'])]
    return out


def classify(ctx, tie, mm):
    """The Lean symbol layer is the frozen normative reference of C03's bit-stream half: an input on which the
    implementation decodes other symbols / another range-coder state IS a failing input of the property."""
    impl = mm.get('impl', '')
    if impl in ('SANITIZER', 'ABORT', 'SIGSEGV'):
        why = 'the decoder trapped (%s) while decoding this packet' % impl
    else:
        why = ('opus_decode reads other symbols / reaches another range-coder state than the frozen normative symbol-layer '
               'reference (first difference: %s)' % _first_diff(mm.get('model', ''), impl))
    return {'suite': tie.name, 'input': mm.get('input', ''), 'expected': mm.get('model', '')[:3000],
            'observed': impl[:3000], 'why': why, 'sanitizer_report': mm.get('sanitizer_report')}


def _first_diff(a, b):
    ta, tb = a.split(' '), b.split(' ')
    for i in range(max(len(ta), len(tb))):
        x = ta[i] if i < len(ta) else '(end)'
        y = tb[i] if i < len(tb) else '(end)'
        if x != y:
            if len(x) > 120 or len(y) > 120:
                k = next((j for j in range(min(len(x), len(y))) if x[j] != y[j]), min(len(x), len(y)))
                return 'token %d at char %d: reference …%s vs implementation …%s' % (i, k, x[max(0, k - 30):k + 30], y[max(0, k - 30):k + 30])
            return 'token %d: reference %s vs implementation %s' % (i, x, y)
    return 'none'


# ---------------------------------------------------------------------------- S4

CORPUS = os.path.join(common.VERIF, 'corpus', 'C03')
CALIB = os.path.join(common.VERIF, 'tools', 'c03_corpus_calibration.json')


def _build_opus_compare():
    exe = os.path.join(common.scratch(), 'opus_compare')
    if not os.path.exists(exe):
        rc, out = common.sh(['cc', '-O2', '-o', exe, os.path.join(common.REPO, 'src', 'opus_compare.c'), '-lm'])
        if rc != 0:
            raise RuntimeError('cannot build src/opus_compare.c: ' + out[-1500:])
    return exe


BUDGET_PACKETS = os.path.join(common.VERIF, 'tools', 'c03_budget_packets.txt')
WRAP_BUDGET = ['-Wl,--wrap=quant_all_bands,--wrap=ec_dec_uint,--wrap=celt_decode_with_ec_dred']
WRAP_SYNTH = ['-Wl,' + ','.join('--wrap=' + x for x in ('quant_all_bands', 'ec_dec_uint', 'celt_decode_with_ec_dred', 'ec_dec_bit_logp',
                                                          'ec_dec_bits', 'ec_dec_icdf', 'ec_decode_bin', 'ec_decode', 'ec_dec_update'))]


def budget_search(ctx):
    hb = ctx.harness('c03_budget', ['c03_budget.c'], variant='plain', extra=WRAP_BUDGET, opt='-O2')
    hs = ctx.harness('c03_synth', ['c03_synth.c'], variant='plain', extra=WRAP_SYNTH, opt='-O2')
    q = ctx.quick
    runs = [('scan', [hb, 'scan', str(ctx.seed), '300000' if q else '6000000', '40']),
            ('enc', [hb, 'scan', str(ctx.seed), '100000' if q else '2000000', '0', 'enc']),
            ('synth', [hs, str(ctx.seed), '60' if q else '1500', '600' if q else '1500'])]
    res = {'frames': 0, 'wit': [], 'lines': []}
    # committed packets that were found to take the exit: replayed on the tree under test
    if os.path.exists(BUDGET_PACKETS):
        lines = [l.strip() for l in open(BUDGET_PACKETS) if l.startswith('silksyms packet ')]
        rc, out = common.sh([_harness(ctx, 'plain'), 'stdin'], input='\n'.join(lines) + '\n')
        ans = [l[2:] for l in out.split('\n') if l.startswith('O ')]
        common.lake_build(['opusmodel'])
        model = common.model_eval(lines)
        nerr = ndiff = 0
        for i, l in enumerate(lines):
            a = ans[i] if i < len(ans) else '(no answer)'
            mdl = model[i] if i < len(model) else ''
            if not a.startswith('OK ret=960 '):
                nerr += 1
                res['wit'].append(_budget_witness(l, 'opus_decode returns %s' % a[:60]))
            elif a != mdl:     # decodes, but not to the symbols / final range the reference symbol layer predicts
                ndiff += 1
                res['wit'].append({'suite': 'silksyms', 'input': l, 'expected': 'reference symbol layer: …' + mdl[-80:],
                                   'observed': 'implementation: …' + a[-80:],
                                   'why': 'a budget-overrunning CELT frame decodes to other symbols / another final range than the frozen '
                                          'reference symbol layer predicts (first difference: %s)' % _first_diff(mdl, a)})
        res['lines'].append('committed budget-overrun packets: %d replayed, %d do not decode to 960 samples, %d differ from the reference '
                            'symbol layer (calls, final range)' % (len(lines), nerr, ndiff))
    import concurrent.futures as cf
    with cf.ThreadPoolExecutor(3) as ex:
        outs = list(ex.map(lambda r: common.sh(r[1], None, 3000), runs))
    for (name, cmd), (rc, out) in zip(runs, outs):
        summ = [l for l in out.splitlines() if l.startswith('# ') and ('frames=' in l or 'starts=' in l)]
        res['lines'].append('%s: %s' % (name, summ[-1][2:] if summ else 'no summary (rc=%d)' % rc))
        m = re.search(r'frames=(\d+)', out)
        res['frames'] += int(m.group(1)) if m else 0
        if rc != 0:
            res['wit'].append({'suite': 'silksyms-budget', 'input': ' '.join(cmd[1:]), 'expected': 'the run completes',
                               'observed': 'exit code %d: %s' % (rc, out[-300:]), 'why': 'the implementation trapped during the bit-budget search'})
        for l in out.splitlines():
            if l.startswith('W '):
                mm = re.search(r'ch=(\d) .*pkt=(x[0-9a-f]+)', l)
                res['wit'].append(_budget_witness('silksyms packet 48000 %s 0 0 %s' % (mm.group(1), mm.group(2)) if mm else l, l[2:200]))
    return res


def _budget_witness(inp, observed):
    return {'suite': 'silksyms-budget', 'input': inp,
            'expected': 'opus_decode never returns an error for a CELT frame of a well-formed packet (a frame that ends a fraction of a bit '
                        'past its budget is decoded like any other)',
            'observed': observed,
            'why': 'opus_decode returns an error instead of audio for a CELT frame (e.g. one that drives the range decoder a fraction of a '
                   'bit past its budget: cached PVQ costs under-state the coded cost of ec_dec_uint for (N,K) = (16,5) and (12,15))'}


def corpus_check(ctx, h, collect=False):
    """Decode the committed packets with the tree under test at every output rate / channel count and compare with the
    committed reference PCM (produced once by the unchanged tree at 48 kHz) using the repo's own opus_compare."""
    res = {'streams': 0, 'comparisons': 0, 'min_q': None, 'exact_48k': 0, 'fails': [], 'notes': [], 'all_q': {}, 'all_exact': {}}
    idx = os.path.join(CORPUS, 'streams.txt.gz')
    if not os.path.exists(idx):
        res['notes'].append('no corpus committed')
        return res
    calib = {k: v for k, v in (json.load(open(CALIB)) if os.path.exists(CALIB) else {}).items() if isinstance(v, dict)}
    cmp_exe = _build_opus_compare()
    work = os.path.join(common.scratch(), 'c03corpus')
    os.makedirs(work, exist_ok=True)
    ref_all = gzip.open(os.path.join(CORPUS, 'ref48.s16.gz'), 'rb').read()
    streams = _parse_streams(gzip.open(idx, 'rt').read())
    pos = 0
    for st in streams:
        nbytes = st['samples48'] * 2 * st['refch']
        ref = ref_all[pos:pos + nbytes]
        ref_native = ref
        pos += nbytes
        if st['refch'] == 1:      # opus_compare wants a stereo reference: a mono stream decodes to L == R
            import array
            a = array.array('h'); a.frombytes(ref)
            b = array.array('h', [0]) * (2 * len(a))
            b[0::2] = a; b[1::2] = a
            ref = b.tobytes()
        refp = os.path.join(work, st['name'] + '.ref')
        open(refp, 'wb').write(ref)
        pk = os.path.join(work, st['name'] + '.pk')
        open(pk, 'w').write('\n'.join(st['lines']) + '\n')
        res['streams'] += 1
        for rate in (48000, 24000, 16000, 12000, 8000):
            for ch in (1, 2):
                key = '%s/%d/%d' % (st['name'], rate, ch)
                base = calib.get(key)
                if base is None or (base.get('skip') and not base.get('exact')):
                    continue
                outp = os.path.join(work, 'out.s16')
                rc, out = common.sh([h, 'corpusdec', pk, str(rate), str(ch), outp])
                if rc != 0:
                    res['fails'].append({'key': key, 'why': 'decode failed: ' + out[-300:]})
                    continue
                # (1) exact comparison at 48 kHz: stereo decode against the (L == R expanded) reference, mono decode of a mono
                #     stream against the mono reference.  Required wherever the unchanged tree was bit-identical (calibration).
                exact = None
                if rate == 48000 and (ch == 2 or st['refch'] == 1):
                    got = open(outp, 'rb').read()
                    want = ref if ch == 2 else ref_native
                    exact = got == want
                    res['exact_48k'] += 1 if exact else 0
                    if collect:
                        res['all_exact'][key] = exact
                    elif base.get('exact') and not exact:
                        res['fails'].append({'key': key, 'why': 'PCM at 48 kHz is not bit-identical to the committed reference (it was on '
                                             'the unchanged tree): ' + _pcm_diff_bytes(got, want, ch)})
                        continue
                if base.get('skip'):
                    continue
                # (2) tolerance verdict of the repo's own opus_compare at every rate
                args = [cmp_exe] + (['-s'] if ch == 2 else []) + ['-r', str(rate), refp, outp]
                rc, out = common.sh(args)
                m = re.search(r'quality metric: ([-\d.]+) %', out)
                q = float(m.group(1)) if m else None
                res['comparisons'] += 1
                if collect:
                    res['all_q'][key] = q if rc == 0 else None
                    continue
                if rc != 0 or q is None:
                    mm = re.search(r'weighted error is ([-\d.eE+]+)', out)
                    res['fails'].append({'key': key, 'why': 'opus_compare: FAILS (%s), baseline quality on the unchanged tree was %.1f %%; %s'
                                                 % (('internal weighted error ' + mm.group(1)) if mm else out.strip()[-200:], base['q'],
                                                    _first_pcm_diff(h, pk, ref, work))})
                else:
                    if res['min_q'] is None or q < res['min_q']:
                        res['min_q'] = q
                    if q < base['q'] - 5:
                        res['notes'].append('%s: quality %.1f %% is more than 5 points below the baseline %.1f %% (still within the RFC threshold)'
                                            % (key, q, base['q']))
    return res


def _pcm_diff_bytes(got, want, ch):
    import array
    a = array.array('h'); a.frombytes(got[:len(got) // 2 * 2])
    b = array.array('h'); b.frombytes(want[:len(want) // 2 * 2])
    n = min(len(a), len(b))
    first = next((i for i in range(n) if a[i] != b[i]), None)
    if first is None:
        return 'lengths differ: %d vs %d samples' % (len(a) // ch, len(b) // ch)
    worst = max(range(n), key=lambda i: abs(a[i] - b[i]))
    ndiff = sum(1 for i in range(n) if a[i] != b[i])
    return ('first difference at sample %d (channel %d, t = %.4f s): %d vs reference %d; %d of %d samples differ, largest |diff| = %d at sample %d'
            % (first // ch, first % ch, first // ch / 48000.0, a[first], b[first], ndiff, n, abs(a[worst] - b[worst]), worst // ch))


def _first_pcm_diff(h, pk, ref, work):
    """Where the 48 kHz stereo decode of the stream first leaves the committed reference PCM (and by how much at most)."""
    import array
    outp = os.path.join(work, 'diff.s16')
    rc, out = common.sh([h, 'corpusdec', pk, '48000', '2', outp])
    if rc != 0:
        return 'decode at 48 kHz stereo failed'
    a = array.array('h'); a.frombytes(open(outp, 'rb').read())
    b = array.array('h'); b.frombytes(ref)
    n = min(len(a), len(b))
    first = next((i for i in range(n) if a[i] != b[i]), None)
    if first is None:
        return '48 kHz stereo decode is bit-exact (%d vs %d samples)' % (len(a) // 2, len(b) // 2)
    mx = max(abs(a[i] - b[i]) for i in range(first, n))
    return ('48 kHz stereo decode first differs from the reference PCM at sample %d (t = %.1f ms), max |pcm - ref| = %d'
            % (first // 2, first / 2 / 48.0, mx))


def _parse_streams(txt):
    streams, cur = [], None
    for line in txt.split('\n'):
        t = line.split(' ')
        if t[0] == 'S':
            cur = {'name': t[1], 'refch': int(t[2]), 'samples48': 0, 'lines': []}
            streams.append(cur)
        elif t[0] in ('P', 'L') and cur is not None:
            cur['lines'].append(line)
        elif t[0] == 'N' and cur is not None:
            cur['samples48'] = int(t[1])
    return streams


def search(ctx):
    """S4 on the implementation only: (1) decoder final range == encoder final range on real encoder streams over modes,
    bandwidths, durations, stereo, transitions, repacketised + padded packets; (2) self-reference PCM corpus vs opus_compare."""
    h = _harness(ctx, 'plain')
    n = 400 if ctx.quick else 8000
    rc, out = common.sh([h, 'search', str(ctx.seed), str(n)], timeout=3000)
    wit, cases, info = [], 0, ''
    for line in out.split('\n'):
        if line.startswith('V '):
            parts = line[2:].split(' | ')
            if len(parts) >= 3:
                wit.append({'suite': 'silksyms-search', 'input': parts[0], 'expected': parts[1], 'observed': parts[2],
                            'why': 'on a packet produced by the real encoder the decoder does not reach the encoder\'s final range'})
        m = re.match(r'# search cases=(\d+) violations=(\d+)(.*)', line)
        if m:
            cases = int(m.group(1)); info = m.group(3).strip()
    if rc != 0 and not wit:
        wit.append({'suite': 'silksyms-search', 'input': 'search %d %d' % (ctx.seed, n), 'expected': 'search completes',
                    'observed': 'exit code %d: %s' % (rc, out[-400:]), 'why': 'the implementation trapped during the final-range search'})
    # (3) bit budget of CELT frames: can the `ec_tell(dec) > 8*len` exit (OPUS_INTERNAL_ERROR) be reached?  Tight-budget arbitrary bytes,
    #     hard-CBR encoder frames, and frames synthesised symbol by symbol and hill-climbed towards the two pulse-cache entries whose
    #     coded cost exceeds the cached cost.  Any decode error / negative bits_left is a failing packet.
    bud = budget_search(ctx)
    for w in bud['wit'][:3]:
        wit.append(w)
    cases += bud['frames']
    cor = corpus_check(ctx, h)
    for f in cor['fails'][:5]:
        wit.append({'suite': 'silksyms-corpus',
                    'input': 'corpus/C03 stream/output rate/channels %s (packets: the `S %s` block of corpus/C03/streams.txt.gz; decode with '
                             '`c03_silksyms corpusdec`, compare with src/opus_compare.c against corpus/C03/ref48.s16.gz)'
                             % (f['key'], f['key'].split('/')[0]),
                    'expected': 'decoded PCM bit-identical at 48 kHz to, and at the other rates within the opus_compare threshold of, the '
                                'committed self-reference PCM (regression oracle)',
                    'observed': f['why'],
                    'why': 'decoded PCM of a committed packet stream differs from the PCM the unchanged tree produced: not bit-identical at '
                           '48 kHz, or outside the RFC 6716 opus_compare tolerance at another rate (self-reference regression oracle, not the '
                           'RFC vectors)'})
    return {'cases': cases + cor['comparisons'], 'distinct': 6,
            'oracle': 'implementation only: OPUS_GET_FINAL_RANGE of the decoder == that of the encoder for every packet of real encoder '
                      'streams (SILK/hybrid/CELT, all bandwidths and durations, stereo, FEC, DTX, transitions) and for repacketised, '
                      'padded multi-frame packets (last frame); self-reference PCM corpus (regression oracle, NOT the RFC vectors): %d '
                      'streams (steady state, mode/bandwidth transitions, onsets, and boundary-exciting streams: bandwidth ladders mono/stereo, '
                      'pitch extremes, hard-panned full-scale stereo, energy extremes) decoded at 5 rates x 2 channel counts: bit-exact '
                      'comparison at 48 kHz, src/opus_compare.c at the RFC threshold at every rate' % cor['streams'],
            'final_range': info, 'corpus': {k: v for k, v in cor.items() if k not in ('fails', 'all_q', 'all_exact')},
            'budget': bud['lines'],
            'samples': ['search %d %d -> %d packets, %d violations; %s' % (ctx.seed, n, cases, len(wit), info)] + bud['lines'] + [
                        'corpus: %d streams, %d comparisons, min quality %s %%, %d bit-exact at 48 kHz stereo'
                        % (cor['streams'], cor['comparisons'], cor['min_q'], cor['exact_48k'])],
            'witnesses': wit[:10]}


def replay(ctx, obj):
    """Re-run the recorded packet(s) on the implementation and on the model."""
    h = _harness(ctx, 'san')
    lines = [obj.get('input', '')] + [w.get('input', '') for w in obj.get('other_witnesses', [])]
    lines = [l for l in lines if l.startswith('silksyms packet ')]
    if not lines:
        print('replay: nothing to re-run in %s; re-running the whole check' % obj.get('kind'))
        import sys
        os.execv(sys.executable, [sys.executable, os.path.join(common.VERIF, 'tools', 'check.py'), ctx.prop,
                                  '--tier', obj.get('tier', 'quick')])
    common.lake_build(['opusmodel'])
    rc, out = common.sh([h, 'stdin'], input='\n'.join(lines) + '\n', env={'ASAN_OPTIONS': 'detect_leaks=0:abort_on_error=0'})
    impl = [l[2:] for l in out.split('\n') if l.startswith('O ')]
    model = common.model_eval(lines)
    bad = 0
    if obj.get('suite') == 'silksyms-budget':
        bad = 0
        for i, l in enumerate(lines):
            a = impl[i] if i < len(impl) else '(no answer)'
            print('input: %s\n  opus_decode: %s\n  reference symbol layer: %s' % (l[:200], a[:80], (model[i] if i < len(model) else '')[-60:]))
            bad += 0 if a.startswith('OK') else 1
        if bad:
            print('VIOLATION property=C03 replay reproduced (%d of %d packets make opus_decode return an error)' % (bad, len(lines)))
            return 1
        print('replay: opus_decode returns audio for the recorded packet(s)')
        return 0
    for i, l in enumerate(lines):
        a = impl[i] if i < len(impl) else '(no answer)'
        mdl = model[i] if i < len(model) else ''
        same = a == mdl
        print('input: %s\n  agree: %s\n  first difference: %s' % (l[:200], same, _first_diff(mdl, a)))
        if obj.get('suite') == 'silksyms-search':
            print('  (final-range witness: expected %s, observed %s)' % (obj.get('expected'), obj.get('observed')))
        if not same:
            bad += 1
    if bad:
        print('VIOLATION property=C03 replay reproduced (%d of %d packets differ from the reference symbol layer)' % (bad, len(lines)))
        return 1
    print('replay: implementation and reference symbol layer agree on the recorded packet(s)')
    return 0


LEVEL_TEXT = ('partial proof (bit-stream half, SILK symbol layer): an executable Lean model of the SILK symbol layer (with frozen '
              'normative tables, proved equal to the tables regenerated from the tree) as driven by '
              'opus_decode (header flags, LBRR skipping, stereo predictor, indices, pulses with shell/LSB/sign decoding, conditional '
              'coding, redundancy header) is the frozen normative reference; kernel-checked: it is total and never leaves a table '
              '(every decoded index lies inside the table it later indexes, every ICDF slice it scans is well-formed and stops '
              'inside its slice, the unbounded LSB loop exits, pulses fit int16, symbol reads do not depend on decoder history); '
              'tied to the code by exact differential comparison on arbitrary bytes and real encoder output under ASan/UBSan. '
              'The PCM-tolerance clause is guarded only by a self-reference regression corpus + final-range search')
LEVEL_NOTE = ('not a proof of conformance to the RFC reference decoder: the reference decoder and test vectors are unavailable offline, '
              'the Lean symbol layer stands in as frozen reference for the SILK bit-stream half; CELT symbol layer (stage 2) and the '
              'PCM clause are searched, not proved')
TECHNIQUE = 'Lean 4 executable reference model + range/totality theorems + regenerated tables + differential correspondence via ld --wrap'
