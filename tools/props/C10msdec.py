"""C10 extension slice `msdec` — the real multistream decoder over real per-stream decoders: each stream is fed its own
sub-packet with the documented arguments, a rejected packet touches no stream, ctl fan-out (harness/c10_msdec.c)."""
import os, re, subprocess
import common

LEAN_MODULES = ['OpusProps.C10MsDec']
GEN = []
SOURCES = ['src/opus_multistream_decoder.c', 'src/opus_multistream.c', 'src/opus_decoder.c', 'src/opus.c', 'src/opus_private.h']
RULE = ('S3 (tie msdec-rand, ASan/UBSan build): histories of 3..10 API calls on one real OpusMSDecoder (1..5 streams, 0..streams '
        'coupled, 1..8 output channels, mapping with duplicates and 255, Fs 48000 or one of 8/12/16/24/48 kHz); packets from a real '
        'multistream encoder with the same streams/coupled (2.5..60 ms, 6..64 kb/s per channel, CBR/VBR, in-band FEC + expected loss '
        'on in about half of the histories so that LBRR frames exist, forced SILK/hybrid sometimes); per call valid (~55%), corrupt '
        '(1-3 bytes flipped/replaced, ~12%), truncated (~8%), garbage (random bytes or well-framed random payload, ~5%), loss '
        '(len 0 with NULL or non-NULL data, rarely len -1, ~10%), decode_fec=1 on the next packet (~10%); frame_size = the '
        'duration, 5760, larger, smaller (BUFFER_TOO_SMALL), 0/-1, beyond Fs/25*3, and for loss/FEC multiples (sometimes '
        'non-multiples) of Fs/400; soft_clip 0/1. opus_multistream_decode_native is called directly with a logging copy callback; '
        'two recording wrappers sit between the multistream code and the real opus_decode_native / opus_decoder_ctl and record every '
        'per-stream call (stream, data offset inside the caller\'s packet, len, frame_size, decode_fec, self_delimited, soft_clip) '
        'with its return value and *packet_offset; the Lean model gets the per-stream results as oracle inputs and must reproduce '
        'the return value, the call trace and the copy trace. Between decode calls (~25%) one opus_multistream_decoder_ctl request '
        'from {GET bandwidth / sample rate / gain / last packet duration / phase inversion disabled, GET final range, RESET_STATE, '
        'SET gain (some out of range), SET phase inversion disabled (0,1,2), OPUS_MULTISTREAM_GET_DECODER_STATE (ids -1..streams), '
        'two unknown requests}, 10% NULL pointers: return value, stored value and the per-stream ctl trace. '
        'S4 (search, harness mode twin, plain and ASan builds): the same histories with one stand-alone twin OpusDecoder per '
        'stream that is fed ONLY the stream\'s own sub-packet (exact-size heap copy: bytes [off, off+packet_offset) for a '
        'self-delimited stream, [off, off+len) for the last) with the recorded arguments, and every ctl the stream received. '
        'A case is distinct by (call kind, streams, coupled, fec, outcome, number of per-stream calls) or (ctl request, streams, outcome)')
NOT_COVERED = [
    'the codec interior of a stream is abstract (any deterministic machine): what is proved is that the multistream decoder adds '
    'nothing to, and hides nothing from, its streams. Two facts about the real opus_decode_native enter as explicit hypotheses: '
    'PoContract (*packet_offset is the parser\'s packet_offset whenever it returns > 0 on a present packet) and, for the '
    'sub-packet form only, Local (it reads nothing beyond its self-delimited sub-packet). Both are PROVED for the C01 skeleton of '
    'opus_decode_native (theorem skeleton_is_a_machine); on the compiled code PoContract is compared on every call of the tie and '
    'Local is established by the S4 twin search (exact-size heap copies under ASan), not proved about the DSP code',
    'OBSERVATION (as the code does it, theorem failing_stream_midway): when stream j of an ACCEPTED packet returns <= 0 (possible '
    'with decode_fec / frame_size combinations the per-stream decoder refuses, or an internal error), streams 0..j-1 and the failing '
    'stream have consumed the call while streams j+1.. have not: the streams are left out of step and the PCM already copied out '
    'for streams < j stays in the caller\'s buffer; the code has no roll-back',
    'frame_size handed to stream s>0 is the RETURN VALUE of stream s-1, not the caller\'s frame_size (code :264); they coincide when '
    'every stream returns the validated packet duration (C01 msDecodeFull_duration_spec), which the model does not assume',
    'the int16 / int24 / float entry points and the projection decoder are one-line wrappers around opus_multistream_decode_native '
    '(soft_clip = OPTIONAL_CLIP for int16, 0 otherwise) and are not modelled separately; the copy-out callbacks and the demixing '
    'matrix belong to C10 proper / C16',
    'opus_multistream_decoder_ctl: the va_list mechanics and pointer values are abstracted (GET_DECODER_STATE yields the stream '
    'index); a data pointer that is NULL with len > 0 is outside the API contract (the validation pass would dereference it); '
    'DRED is always NULL in opus_multistream_decode_native',
    'packet_offset < 0 or > len from an elementary machine is outside the model (data.drop of a negative count); the real '
    'decoder\'s value is a parser offset in 0..len (compared on every tie call)',
]
ASSUMPTIONS = ['the caller\'s packet holds len readable bytes (exact-size heap block under ASan) and pcm holds '
               'channels*min(frame_size, Fs/25*3) samples',
               'the OpusMSDecoder was created by opus_multistream_decoder_create/init with a valid layout (sts.length = nb_streams), '
               'all streams at the rate Fs that OPUS_GET_SAMPLE_RATE on stream 0 reports',
               'allocation succeeds']
REQUIRED_THEOREMS = ['OpusProps.C10MsDec.stream_is_standalone', 'OpusProps.C10MsDec.accepted_packet_splits',
                     'OpusProps.C10MsDec.accepted_packet_subpackets', 'OpusProps.C10MsDec.rejected_packet_touches_nothing',
                     'OpusProps.C10MsDec.failing_stream_midway', 'OpusProps.C10MsDec.routed_channel_of_stream',
                     'OpusProps.C10MsDec.ctl_fanout', 'OpusProps.C10MsDec.skeleton_is_a_machine',
                     'OpusProps.C10MsDec.stream_inputs_closed_form', 'OpusProps.C10MsDec.history_is_splitter_run',
                     'OpusProps.C10MsDec.toy_po', 'OpusProps.C10MsDec.toy_local', 'OpusProps.C10MsDec.valid_f8']
UNPROVED = ['Local and PoContract for the compiled SILK/CELT decoders (proved for the C01 skeleton of opus_decode_native with the DSP '
            'calls as oracles; on the binary they rest on the tie and the S4 twin search)']


def _n(ctx, quick, thorough):
    return str(quick if ctx.quick else thorough)


def _harness(ctx, name, variant, extra=()):
    """ctx.harness with one retry: the shared library cache (.cache/lib, pruned) can lose the directory of a freshly built
    library while other checks build theirs; rebuild it then."""
    try:
        return ctx.harness(name, ['c10_msdec.c'], variant=variant, extra=list(extra))
    except RuntimeError:
        ctx._libs.pop(variant, None)
        return ctx.harness(name, ['c10_msdec.c'], variant=variant, extra=list(extra))


def _tie(name, cmd):
    """common.run_tie, retried when the shared driver binary is momentarily missing (another owner's `lake build opusmodel`
    relinks it in place)."""
    import time
    for attempt in range(4):
        try:
            return common.run_tie(name, cmd)
        except FileNotFoundError:
            time.sleep(20)
            common.lake_build(['opusmodel'])
    return common.run_tie(name, cmd)


def ties(ctx):
    h = _harness(ctx, 'c10_msdec', 'san')
    return [_tie('msdec-rand', [h, 'rand', str(ctx.seed + 900), _n(ctx, 400, 8000)])]


_WHY = ('opus_multistream_decode_native / opus_multistream_decoder_ctl differs from the Lean model proved to satisfy: each stream '
        'is fed its own sub-packet with the documented arguments; a rejected packet touches no stream; ctl fan-out')


def classify(ctx, tie, mm):
    impl, model, inp = str(mm.get('impl', '')), str(mm.get('model', '')), mm.get('input', '')
    if impl in ('SANITIZER', 'ABORT', 'SIGSEGV'):
        return {'suite': tie.name, 'input': inp, 'expected': model, 'observed': impl,
                'why': 'sanitizer report / hardening assert inside opus_multistream_decode_native or opus_multistream_decoder_ctl '
                       '(a read past the caller\'s packet or a write past the caller\'s pcm is a locality violation)'}
    if model.split(' ')[0] in ('bad-op', 'INEXACT'):
        return None          # the model makes no statement about this input: a broken tie, not a property violation
    if model.startswith('PO-CONTRACT-VIOLATED'):
        return {'suite': tie.name, 'input': inp, 'expected': 'packet_offset of every successful per-stream call = the parser\'s '
                'packet_offset of the bytes the stream was handed', 'observed': impl,
                'why': 'a per-stream opus_decode_native call returned > 0 on a present packet but stored a *packet_offset that is not '
                       'the C06 parser\'s (hypothesis PoContract of accepted_packet_splits): the following streams are handed bytes '
                       'that are not their own sub-packets'}
    return {'suite': tie.name, 'input': inp, 'expected': model, 'observed': impl, 'why': _WHY}


def _run(cmd, timeout=3000):
    env = dict(os.environ)
    env.setdefault('ASAN_OPTIONS', 'detect_leaks=0:abort_on_error=0')
    env.setdefault('UBSAN_OPTIONS', 'print_stacktrace=1')
    p = subprocess.run(cmd, stdout=subprocess.PIPE, stderr=subprocess.PIPE, text=True, env=env, timeout=timeout)
    return p


def search(ctx):
    """Property predicate on the implementation only (harness mode twin): every stream inside the multistream decoder behaves,
    bit for bit, like a stand-alone decoder that sees only the stream's own sub-packet and the stream's own ctl calls."""
    wit, cases, samples, distinct = [], 0, [], set()

    def eat(p, suite, what):
        nonlocal cases
        ok = False
        for line in p.stdout.split('\n'):
            if line.startswith('DIFF '):
                parts = [x.strip() for x in line[5:].split(' | ')]
                # the input description may itself contain ' | then ctl ...': the last three fields are why/expected/observed
                if len(parts) >= 4:
                    why, exp, obs = parts[-3], parts[-2], parts[-1]
                    wit.append({'suite': suite, 'input': ' | '.join(parts[:-3]) + ' (' + what + ')', 'expected': exp.replace('expected=', ''),
                                'observed': obs.replace('observed=', ''), 'why': why})
            elif line.startswith('C '):
                distinct.add(line)
            elif line.startswith('SEARCH '):
                m = re.search(r'cases=(\d+) checks=(\d+) diffs=(\d+)', line)
                cases += int(m.group(1))
                samples.append('%s: %s' % (suite, line))
                ok = True
            elif line.startswith('# '):
                samples.append(line[2:])
            elif line.startswith('O ABORT') or line.startswith('O SIGSEGV') or line.startswith('O SANITIZER'):
                rep = [l for l in p.stderr.split('\n') if 'runtime error' in l or 'ERROR: AddressSanitizer' in l or l.startswith('SUMMARY:')
                       or re.match(r'\s+#[0-5] ', l)][:10]
                wit.append({'suite': suite, 'input': what, 'expected': 'no crash / assert / read outside the packet',
                            'observed': line[2:] + ' ' + (' | '.join(rep) or p.stderr[-1200:]),
                            'why': 'the implementation aborted during the property run (a stream read outside its own sub-packet, '
                                   'or a hardening assert fired)'})
                ok = True
        if not ok:
            wit.append({'suite': suite, 'input': what, 'expected': 'harness completes', 'observed': 'exit %d: %s' % (p.returncode, p.stderr[-1200:]),
                        'why': 'property harness crashed'})

    n = 600 if ctx.quick else 12000
    seed = ctx.seed + 950
    h = _harness(ctx, 'c10_msdec', 'plain')
    eat(_run([h, 'twin', str(seed), str(n)]), 'msdec-twin', 'harness: c10_msdec twin %d %d (plain build)' % (seed, n))
    hs = _harness(ctx, 'c10_msdec', 'san')
    eat(_run([hs, 'twin', str(seed), str(n // 3)]), 'msdec-twin-san', 'harness: c10_msdec twin %d %d (ASan/UBSan build)' % (seed, n // 3))
    return {'cases': cases, 'distinct': len(distinct),
            'oracle': 'for every per-stream decode call the multistream decoder makes: return value, packet_offset, decoded PCM (bit '
                      'patterns) and final range equal those of a stand-alone decoder of the same rate/channels fed ONLY the stream\'s '
                      'own sub-packet (exact-size heap copy) with the same frame_size / decode_fec / self_delimited / soft_clip, call i '
                      'is on stream i and its bytes lie inside the caller\'s packet; afterwards every stream\'s final range, last '
                      'packet duration, bandwidth, gain and phase-inversion flag equal its twin\'s; every output channel holds the '
                      'samples of the stream side its mapping byte names (zeros for 255) and nothing beyond the returned count is '
                      'written; a packet rejected before the first stream leaves every stream\'s final range and last packet duration '
                      'unchanged; ctl: int32 GETs = stream 0, final range = XOR over the twins, SET/RESET reach streams 0..n-1 in '
                      'order and stop at the first failure, GET_DECODER_STATE returns the requested stream, unknown requests touch nothing',
            'samples': samples + sorted(str(x) for x in distinct)[:3], 'witnesses': wit}


LEVEL_TEXT = ('proof, for EVERY elementary decoder (an abstract deterministic state machine for opus_decode_native / opus_decoder_ctl), '
              'every layout, rate and history of API calls (packets of any content, losses, FEC calls, multistream ctl requests, '
              'direct ctl on a stream): the final state of stream i and every answer it gave (return value, packet_offset, PCM) are '
              'those of ONE stand-alone machine replaying exactly the requests that reached stream i; nothing else ever changes a '
              'stream. On the Lean transcription of opus_multistream_decode_native: every early exit (frame_size, len, 2n-1, '
              'opus_multistream_packet_validate failure = some stream malformed or durations differ, BUFFER_TOO_SMALL) makes no '
              'per-stream call and no copy, so no state changes; what passes with a packet is exactly n RFC-valid packets of equal '
              'duration (C10 ms_packet_structure); on such a packet the whole outcome equals the declarative run specLoop: stream s '
              'is called once at the offset = total length of the sub-packets before it, with the remaining length, '
              'self_delimited = (s != n-1), the caller\'s decode_fec and soft_clip, frame_size = previous return value (clamped '
              'caller value for s = 0) - and, for machines that read only their own sub-packet, equals the run on the sub-packets '
              'serialize(s != n-1, p_s) alone (closed form per call; and whole histories of accepted packets interleaved with arbitrary '
              'other calls equal the declarative run specRun); a stream returning <= 0 is the last one called, its value is returned, earlier streams '
              'and the failing one keep their advanced state, later ones are untouched; a positive return means all n streams returned '
              '> 0 and every output channel gets exactly one copy from the stream side C10.expectedSrc names (composition with '
              'C10.routing); ctl: the five int32 GETs reach stream 0 only, FINAL_RANGE / RESET_STATE / SET_GAIN / '
              'SET_PHASE_INVERSION_DISABLED reach streams 0,1,.. in order up to the first refusal (all of them when OPUS_OK, final '
              'range = XOR), every other request reaches no stream; the C01 skeleton of opus_decode_native satisfies both hypotheses')
LEVEL_NOTE = ('trusted: Lean kernel; the correspondence harness and its two recording wrappers (macro-renamed calls inside the '
              '#included src/opus_multistream_decoder.c). The tie runs the model with the recorded per-stream (return, packet_offset) '
              'as the scripted machine and compares return value, per-stream call trace (stream, data offset, len, frame_size, fec, '
              'self_delimited, soft_clip), copy trace and ctl trace exactly. Hypotheses PoContract / Local about the compiled '
              'per-stream decoder rest on the tie and the S4 twin search.')
TECHNIQUE = ('Lean 4 theorems over an abstract state machine (parametricity: any codec interior) + executable transcription + differential '
             'correspondence of call traces under ASan/UBSan (real per-stream decoders, recorded) + twin-decoder search on the implementation')
