"""C09 — packet loss: PLC and FEC return the requested audio, stay bounded, and recover (DESIGN.md §7.C09)."""
import json, os, re, subprocess
import common
from props import C01 as c01

LEAN_MODULES = ['OpusProps.C09']
EXTENSIONS = ['C09silkplc', 'C09celtbg']   # extension slices merged into this property's check (tools/EXT_BRIEF.md)
GEN = ['PlcConsts']
SOURCES = ['src/opus_decoder.c', 'src/opus.c', 'celt/celt_decoder.c', 'celt/entdec.c', 'silk/PLC.c', 'silk/PLC.h', 'silk/CNG.c',
           'silk/dec_API.c', 'silk/decode_frame.c', 'silk/define.h', 'silk/macros.h', 'silk/enc_API.c', 'src/opus_encoder.c']
REQUIRED_THEOREMS = [
    'OpusProps.C09.plc_duration', 'OpusProps.C09.plc_not_multiple', 'OpusProps.C09.plc_chunking',
    'OpusProps.C09.fec_degrades_to_plc', 'OpusProps.C09.fec_call_shape', 'OpusProps.C09.fec_frame_layers',
    'OpusProps.C09.lbrr_flag_position', 'OpusProps.C09.plc_gains_contract', 'OpusProps.C09.plc_gains_first_frame',
    'OpusProps.C09.loss_duration_saturates', 'OpusProps.C09.plc_kind', 'OpusProps.C09.lbrr_flag_is_has_lbrr',
]
RULE = ('loss patterns x call shapes on real encoder output: for 16 configurations (SILK NB/MB/WB 10-60 ms, hybrid SWB/FB 10/20 ms, '
        'CELT 2.5-20 ms, automatic mode switching, stereo FEC streams whose stereo image keeps changing, streams switched SILK -> CELT '
        '-> SILK inside the loss window; mono/stereo; decoders at all five rates; in-band FEC on/off; decoder gain) every '
        'one of the 2^k loss patterns over a window of k packets (k = 7 quick / 10 thorough in the replay, 8 / 12 in the search) on six anchor configurations and random patterns on the others, '
        'each with a call shape from {one PLC call, PLC split into 2.5-20 ms pieces, FEC from the next packet, FEC with a '
        'larger-than-packet frame_size}; plus long bursts (1-10 s; the first eight walk a fixed list incl. mono streams into stereo decoders and the reverse). Every call of the lossy decoder is replayed on the Lean '
        'skeleton (return value, state, inner call sequence with arguments and extents); the SILK PLC gain scalars of every '
        'traced concealed frame, opus_packet_has_lbrr of every packet and the CELT loss_duration counter are compared with their '
        'models; a case is distinct by (operation, outcome class)')
NOT_COVERED = [
    'clause "received packets still decode with the encoder\'s final range whatever was lost before": no theorem here — the symbol-level '
    'lockstep is C02/C08 (silk_syms_roundtrip, opus_frame_lockstep_silk); on the implementation it is searched by C09\'s `range` '
    'statistic (every received packet of every loss pattern, incl. mode switches inside the loss window)',
    'the audio clauses — level bound of the concealed signal, decay under sustained loss, re-convergence, FEC vs. PLC accuracy — '
    'are float DSP: not modelled, SEARCHED on the implementation only (twin decoders, calibrated thresholds)',
    'CELT pitch / noise PLC interior (the choice between them — loss_duration >= 40, start band, skip_plc — IS modelled and proved)',
    'SILK PLC beyond the gain scalars (pitch-lag drift, LPC bandwidth expansion, CNG)',
    'encoder side of LBRR (silk/enc_API.c): covered only through the packets it produces',
]
ASSUMPTIONS = c01.ASSUMPTIONS + [
    'signal for the audio oracles: synthetic speech-like source (time-varying pitch, formants, syllable envelope, unvoiced bursts)',
]
TRUSTED = c01.TRUSTED + ['tools/props/C09_calib.json: thresholds of the audio oracles, calibrated on the unchanged tree at 8 seeds']
UNPROVED = [
    'plc_level_bound / plc_decay / reconvergence / fec_accuracy (float DSP; searched on the implementation only)',
]
LEVEL_TEXT = ('proof of the control and integer parts, search for the audio parts: for every decoder state satisfying the invariant '
              '(hence after every loss pattern) and every DSP behaviour within the oracle contracts a NULL-packet / FEC request '
              'for a positive multiple of 2.5 ms returns exactly that duration through all three entry points (BAD_ARG otherwise), '
              'is cut into chunks the SILK/CELT layers accept and that tile the request, FEC = concealment of frame_size - '
              'packet_frame_size + one LBRR frame at the end of the buffer or plain concealment exactly when :761 says so; the bit '
              'opus_packet_has_lbrr tests is the LBRR flag a fresh range decoder yields; the regenerated SILK PLC attenuation '
              'constants are < 1 (Q15) so taps and random scale shrink per lost frame; CELT loss_duration saturates at 10000 and '
              'is reset by a decoded frame, and which lost CELT frame gets the pitch-based or the noise concealment is determined '
              'for every loss pattern (noise from loss_duration 40 on, in hybrid mode, and until two packets in a row were decoded). Level, decay, re-convergence and FEC accuracy of the SIGNAL are searched with twin '
              'decoders on calibrated thresholds, not proved')
LEVEL_NOTE = c01.LEVEL_NOTE + '; thresholds of the audio oracles (tools/props/C09_calib.json)'
TECHNIQUE = ('Lean 4 theorems over the decoder control skeleton / PLC gain recursions / range-decoder model + regenerated constants '
             '+ differential replay over enumerated loss patterns + twin-decoder witness search')

CALIB = json.load(open(os.path.join(os.path.dirname(os.path.abspath(__file__)), 'C09_calib.json')))


def _th():
    t = CALIB['thresholds']
    return '%g,%g,%g,%g,%g,%g,%g' % (t['peak'], t['decay'], t['reconv'], t['fecratio'], t['decay2'], t['fecframe'], t['reconvw'])


def _th2():
    t = CALIB['thresholds']
    return '%g,%g,%g,%g' % (t['rdecay'], t['rdecay2'], t['rhdecay'], t['rhdecay2'])


def _k(ctx):
    return (7, 10) if ctx.quick else (10, 40)


def ties(ctx):
    h = c01.harness(ctx, 'c09_loss', 'san')
    hc = c01.harness(ctx, 'c09_celtloss', 'san')
    k, b = _k(ctx)
    return [common.run_tie('loss-patterns', [h, 'loss', str(ctx.seed), str(k), str(b), _th()]),
            common.run_tie('celt-loss-duration', [hc, 'run', str(ctx.seed), '400' if ctx.quick else '4000'])]


def _ints(s):
    return [int(x) for x in s.split(',')]


def classify(ctx, tie, mm):
    inp, impl = mm.get('input', ''), (mm.get('impl', '') or '')
    t = inp.split(' ')
    if len(t) > 1 and t[1] == 'dec':
        return c01.classify(ctx, tie, mm)
    first = impl.split(' ')[0]
    if first in ('SANITIZER', 'ABORT', 'TIMEOUT', 'SIGSEGV'):
        return {'suite': tie.name, 'input': inp, 'expected': mm.get('model'), 'observed': impl,
                'why': 'the call ended with ' + first, 'sanitizer_report': mm.get('sanitizer_report', [])}
    try:
        if t[1] == 'plcgain':
            # the property predicate on the implementation's own gains: nothing grows during a loss in progress
            loss_cnt, b0, rs0 = int(t[2]), _ints(t[5]), int(t[6])
            g = impl.split(' ')
            b1, rs1 = _ints(g[0][2:]), int(g[1])
            grew = [i for i in range(5) if abs(b1[i]) > abs(b0[i])]
            if grew or (loss_cnt >= 1 and rs1 > rs0) or rs1 < 0:
                return {'suite': tie.name, 'input': inp, 'expected': mm.get('model'), 'observed': impl,
                        'why': 'SILK concealment gain scalars do not shrink: taps %s grew, rand_scale %d -> %d' % (grew, rs0, rs1)}
        elif t[1] == 'celtplc':
            ld0, skip0, start = int(t[2]), int(t[3]), int(t[4])
            m = re.match(r'kind=(\w+) ld=(-?\d+) skip=(\d)', impl)
            kind, ld1, skip1 = m.group(1), int(m.group(2)), int(m.group(3))
            should_noise = ld0 >= 40 or start != 0 or skip0 != 0
            if (kind == 'noise') != should_noise or ld1 > 10000 or ld1 < ld0 or (kind == 'noise' and not skip1):
                return {'suite': tie.name, 'input': inp, 'expected': mm.get('model'), 'observed': impl,
                        'why': 'CELT concealment kind / loss_duration / skip_plc contradict the stated rule (noise PLC iff '
                               'loss_duration >= 40 or start band != 0 or skip_plc; counter in [previous, 10000])'}
        elif t[1] == 'celtgood':
            ld0 = int(t[2])
            m = re.match(r'ld=(-?\d+) skip=(\d)', impl)
            if int(m.group(1)) != 0 or (ld0 == 0 and int(m.group(2)) != 0):
                return {'suite': tie.name, 'input': inp, 'expected': mm.get('model'), 'observed': impl,
                        'why': 'a decoded CELT frame did not reset loss_duration / two consecutive ones did not re-enable the pitch PLC'}
        elif t[1] == 'lossdur':
            ld0, ld1 = int(t[2]), int(impl[3:])
            if ld1 > 10000 or ld1 < ld0:
                return {'suite': tie.name, 'input': inp, 'expected': mm.get('model'), 'observed': impl,
                        'why': 'CELT loss_duration left [previous, 10000]'}
        elif t[1] == 'lossgood':
            if int(impl[3:]) != 0:
                return {'suite': tie.name, 'input': inp, 'expected': mm.get('model'), 'observed': impl,
                        'why': 'CELT loss_duration not reset by a decoded frame'}
    except (ValueError, IndexError):
        pass
    return None


def search(ctx):
    """C09 predicates on the implementation (no model): requested duration returned by every concealment / FEC call whatever the
    loss pattern and call shape, finite output, concealed peak <= peak x level before the loss, level of every output channel 1 s / 2 s
    into a sustained loss <= decay / decay2 x its pre-loss level, and — loss-pattern family "burst of 3-20 s, k = 1..3 received packets,
    sustained burst" on streams with a quiet lead-in followed by loud stationary content — 1 s / 2 s into the SECOND burst <= rdecay / rdecay2
    (CELT-only; rhdecay / rhdecay2 hybrid) x the level of the k packets received before it, every frame rebuilt from LBRR data within fecframe x max(frame level,
    concealment error), re-convergence to the loss-free twin 400 ms after packets resume and, on soft-burst / pause / loud-onset
    streams with the loss at the end of the soft burst, in EVERY 5 ms window until >= 1 s after the loss (reconvw), every received packet decodes
    with the encoder's final range, opus_packet_has_lbrr == LBRR flag decoded by silk_Decode, FEC error energy <= fecratio x
    PLC error energy where concealment fails; thresholds from tools/props/C09_calib.json."""
    k, b = (8, 10) if ctx.quick else (12, 60)
    # third job: the rebound sessions (burst - k received packets - sustained burst on quiet-lead-in / loud stationary streams)
    runs = [('plain', ctx.seed + 1000, k, b), ('san', ctx.seed + 2000, 6 if ctx.quick else 10, b),
            ('plain', ctx.seed + 4000, -1, 10 if ctx.quick else 40)]
    cases, wit, kinds, samples, stats = 0, [], {}, [], []
    c01.harness(ctx, 'c09_loss', 'plain')   # two of the parallel jobs share this binary: build it once, before the pool starts

    def one(variant, seed, kk, bb):
        h = c01.harness(ctx, 'c09_loss', variant)
        args = ['loss', str(seed), str(kk), str(bb), _th(), 'quiet'] if kk >= 0 else ['rebound', str(seed), str(bb), _th2(), 'quiet']
        rc, out, err = c01._run_search(h, args, 3000)
        return variant, h, args, rc, out, err

    for variant, h, args, rc, out, err in c01.parallel(one, runs):
        m = re.search(r'# (?:loss|rebound) seed=\d+ (?:k=\d+ bursts=\d+ )?sessions=(\d+) calls=(\d+) witnesses=(\d+).*', out)
        if m:
            cases += int(m.group(2))
        ms = re.search(r'# stats .*', out)
        if ms:
            stats.append('%s: %s' % (variant, ms.group(0)[2:]))
        for line in out.split('\n'):
            if line.startswith('W '):
                kind, what, inp = (line[2:].split(' | ') + ['', ''])[:3]
                kinds[kind] = kinds.get(kind, 0) + 1
                wit.append({'suite': '%s-search-%s' % (args[0], variant), 'input': inp, 'expected': 'C09 predicate holds', 'observed': what,
                            'why': '%s (reproduce: %s %s)' % (kind, os.path.basename(h), ' '.join(args))})
            elif line.startswith('O ') and line[2:].split(' ')[0] in ('SANITIZER', 'ABORT', 'TIMEOUT', 'SIGSEGV'):
                prev = [l for l in out.split('\n') if l.startswith('I ')]
                rep = [l for l in err.split('\n') if 'ERROR: AddressSanitizer' in l or 'runtime error' in l or l.startswith('SUMMARY:')][:6]
                wit.append({'suite': 'loss-search-%s' % variant, 'input': prev[-1][2:] if prev else '', 'expected': 'call returns',
                            'observed': line[2:], 'sanitizer_report': rep,
                            'why': 'the call ended with %s (reproduce: %s %s)' % (line[2:], os.path.basename(h), ' '.join(args))})
        if rc != 0 and not m and not any(w['suite'].endswith(variant) for w in wit):
            wit.append({'suite': 'loss-search-%s' % variant, 'input': ' '.join(args), 'expected': 'harness completes',
                        'observed': 'exit %d: %s' % (rc, err[-600:]), 'why': 'search harness died'})
        samples.append('%s %s: %s' % (variant, ' '.join(args), (m.group(0) if m else 'no summary')))
    # CELT loss_duration predicate on the implementation
    hc = c01.harness(ctx, 'c09_celtloss', 'san')
    args = ['run', str(ctx.seed + 3000), '400' if ctx.quick else '4000', 'quiet']
    rc, out, err = c01._run_search(hc, args, 3000)
    m = re.search(r'# celtloss seed=\d+ decoders=\d+ cases=(\d+) witnesses=(\d+).*', out)
    if m:
        cases += int(m.group(1))
    for line in out.split('\n'):
        if line.startswith('W '):
            kind, what, inp = (line[2:].split(' | ') + ['', ''])[:3]
            kinds[kind] = kinds.get(kind, 0) + 1
            wit.append({'suite': 'celt-loss-search', 'input': inp, 'expected': 'loss_duration in [previous, 10000], 0 after a decoded frame; noise PLC iff loss_duration >= 40 or start band != 0 or skip_plc',
                        'observed': what, 'why': '%s (reproduce: %s %s)' % (kind, os.path.basename(hc), ' '.join(args))})
    if rc != 0 and not m:
        wit.append({'suite': 'celt-loss-search', 'input': ' '.join(args), 'expected': 'harness completes',
                    'observed': 'exit %d: %s' % (rc, err[-600:]), 'why': 'search harness died'})
    samples.append('san %s: %s' % (' '.join(args), (m.group(0) if m else 'no summary')))
    return {'cases': cases, 'distinct': len(kinds), 'oracle': search.__doc__, 'samples': samples, 'witnesses': wit[:20],
            'witness_kinds': kinds, 'statistics': stats, 'thresholds': CALIB['thresholds'],
            'calibrated_max': CALIB['observed_max']}
