"""C09 extension `SilkPlc` — SILK packet-loss concealment, comfort noise and frame glue (silk/PLC.c, silk/CNG.c) as a
bit-exact Lean value model, tied to the real functions on live decoder states (tools/EXT_BRIEF.md)."""
import os, re
import common
from props import C01 as c01

LEAN_MODULES = ['OpusProps.C09SilkPlc']
GEN = ['SilkPlcCngConsts', 'PlcConsts']
SOURCES = ['silk/PLC.c', 'silk/PLC.h', 'silk/CNG.c', 'silk/decode_frame.c', 'silk/structs.h', 'silk/define.h', 'silk/macros.h',
           'silk/SigProc_FIX.h', 'silk/Inlines.h', 'silk/sum_sqr_shift.c', 'silk/bwexpander.c', 'silk/LPC_analysis_filter.c',
           'silk/LPC_inv_pred_gain.c', 'silk/NLSF2A.c', 'silk/decoder_set_fs.c']
REQUIRED_THEOREMS = ['OpusProps.C09SilkPlc.' + t for t in (
    'glue_identity_when_not_lost', 'glue_identity_when_quieter', 'glue_flags', 'glue_output_int16', 'glue_damped_when_gain_le_one',
    'glue_gain_range', 'glue_gain_above_one_counterexample', 'conceal_gain_decreasing', 'conceal_output_int16',
    'conceal_total_partial', 'ltp_limit_counterexample', 'exDec_ok', 'plc_inv_reset', 'plc_inv_frame', 'plc_inv_history',
    'conceal_gain_after_n', 'cng_output_int16', 'conceal_ltp_reads_in_bounds',
)]
UNPROVED = [
    'conceal_total at full strength: in-bounds-ness of every array read of the value model (the model reads with a total accessor; '
    'that no assert fires under the invariant IS proved: plc_inv_frame); totality of silk_CNG (NLSF2A never aborts on '
    'the smoothed NLSFs), CNG gain smoothing bound',
    'glue_gain_bound: the sharp numeric bounds gain_Q16 <= 65952 for conc_energy >= 64 and <= 1044800 otherwise (only 0 <= gain_Q16 <= 1044800 is proved)',
    'first_lost_rand_scale: rand_scale_Q14 <= 2^14 after an unvoiced first lost frame and <= 2^14 + |negative tap sum| after a voiced one '
    '(proved: [0, 32767] always, PlcInv)',
    'geometric bound for the harmonic taps (0.95^n from HARM_ATT_Q15[1]); for rand_scale it is conceal_gain_after_n',
]
RULE = ('every call of silk_PLC (lost and received), silk_CNG and silk_PLC_glue_frames that real opus decoders make while decoding '
        'real encoder streams (SILK-only NB/MB/WB and hybrid, 10/20/40/60 ms, mono/stereo, DTX, in-band FEC, voiced / noise / silence / '
        'clipping input, bandwidth switches mid-stream) under loss bursts of 1..20 packets, loss right after creation / OPUS_RESET_STATE, '
        'FEC decodes, plus malformed streams (random payload behind a SILK TOC): the wrappers compiled into silk/decode_frame.c snapshot '
        'the live decoder state, and the Lean value model must reproduce the output frame sample by sample and every member of the '
        'PLC / CNG state afterwards; a case is distinct by (operation, outcome)')
NOT_COVERED = [
    'silk_decode_core / the resampler / stereo un-mixing after the concealment (C03/C18 slices)',
    'ENABLE_DEEP_PLC / OSCE branches (not compiled in this configuration)',
]
ASSUMPTIONS = c01.ASSUMPTIONS
TRUSTED = c01.TRUSTED
LEVEL_TEXT = ('proof about the Lean transcription of silk/PLC.c + silk/CNG.c, whose input/output behaviour is compared exactly with the '
              'compiled code on live decoder states')
LEVEL_NOTE = c01.LEVEL_NOTE
TECHNIQUE = ('Lean 4 value model (unbounded Int with explicit wrap16/wrap32/sat16) + kernel-checked theorems + differential tie on '
             'live decoder states (plain and ASan/UBSan builds) + predicate search on the implementation')


def _n(ctx):
    return 24 if ctx.quick else 250


def ties(ctx):
    hs = c01.harness(ctx, 'c09_silkplc', 'san')
    hp = c01.harness(ctx, 'c09_silkplc', 'plain')
    n = _n(ctx)
    return common.run_ties_parallel([('silkplc-live-san', [hs, 'tie', str(ctx.seed), str(n)]),
                                     ('silkplc-live-plain', [hp, 'tie', str(ctx.seed + 500), str(n)])], workers=2)


def _ints(s):
    return [] if s in ('-', '') else [int(x) for x in s.split(',')]


def _field(impl, key):
    m = re.search(r'(?:^| )%s=(\S+)' % re.escape(key), impl)
    return m.group(1) if m else None


def classify(ctx, tie, mm):
    """A model/implementation disagreement is a C09 violation when the implementation's own answer contradicts a C09 clause."""
    inp, impl = mm.get('input', ''), (mm.get('impl', '') or '')
    first = impl.split(' ')[0]
    w = {'suite': tie.name, 'input': inp[:4000], 'expected': (mm.get('model') or '')[:2000], 'observed': impl[:2000]}
    if first in ('SANITIZER', 'ABORT', 'TIMEOUT', 'SIGSEGV'):
        w.update(why='the call ended with ' + first, sanitizer_report=mm.get('sanitizer_report', []))
        return w
    t = inp.split(' ')
    try:
        if t[1] == 'glue':
            loss_cnt, lfl, fin, fout = int(t[2]), int(t[3]), _ints(t[6]), _ints(_field(impl, 'f'))
            if len(fout) != len(fin):
                w['why'] = 'glue changed the frame length'
                return w
            if (loss_cnt != 0 or lfl == 0) and fout != fin:
                w['why'] = 'silk_PLC_glue_frames is not the identity although no fade-in applies'
                return w
        elif t[1] == 'conceal':
            loss_cnt = int(t[8])
            plc0 = t[14:]
            rs0, b0 = int(plc0[5]), _ints(plc0[1])
            m = re.search(r'plc= (.*)$', impl)
            plc1 = m.group(1).split(' ')
            rs1, b1 = int(plc1[5]), _ints(plc1[1])
            if rs1 < 0:
                w['why'] = 'concealment excitation gain rand_scale_Q14 = %d negative' % rs1
                return w
            if loss_cnt >= 1 and (rs1 > rs0 or (rs0 > 0 and rs1 >= rs0)):
                w['why'] = 'rand_scale_Q14 %d -> %d does not decrease on lost frame #%d' % (rs0, rs1, loss_cnt + 1)
                return w
            grew = [i for i in range(5) if abs(b1[i]) > abs(b0[i])]
            if grew and int(plc0[10]) == int(t[2]):
                w['why'] = 'harmonic taps %s grew during a loss' % grew
                return w
    except (ValueError, IndexError, AttributeError, TypeError):
        pass
    return None


def search(ctx):
    """C09 clauses that live in silk/PLC.c, evaluated on the implementation's own values (no model) for every call made while
    decoding the generated streams: after a concealed frame rand_scale_Q14 >= 0, lossCnt was incremented, pitchL_Q8 in (0, 18 ms];
    from the second lost frame of a burst rand_scale_Q14 strictly decreases while positive and no harmonic tap grows in magnitude
    (decay under sustained loss); silk_PLC_glue_frames changes no sample unless last_frame_lost and lossCnt == 0, amplifies no sample
    inside the ramp (only the first sample can see a gain above 1.0 — counted, not a violation) and sets / clears last_frame_lost.
    rand_scale_Q14 > 2^14 and a glue gain > 1.0 are counted in the statistics (observations beyond the property text)."""
    n = 120 if ctx.quick else 2500
    wit, kinds, samples, cases, stats = [], {}, [], 0, []
    for variant, seed in (('plain', ctx.seed + 1000),):
        h = c01.harness(ctx, 'c09_silkplc', variant)
        args = ['search', str(seed), str(n)]
        rc, out, err = c01._run_search(h, args, 3000)
        m = re.search(r'# silkplc search seed=\d+ sessions=\d+ conceal=(\d+) upd=(\d+) cng=(\d+) glue=(\d+) witnesses=(\d+)', out)
        if m:
            cases += sum(int(m.group(i)) for i in (1, 2, 3, 4))
        ms = re.search(r'# stats .*', out)
        if ms:
            stats.append(ms.group(0)[2:])
        for line in out.split('\n'):
            if line.startswith('W '):
                kind, what, inp = (line[2:].split(' | ') + ['', ''])[:3]
                kinds[kind] = kinds.get(kind, 0) + 1
                if kinds[kind] <= 3:
                    wit.append({'suite': 'silkplc-search', 'input': inp, 'expected': 'C09 clause holds', 'observed': what,
                                'why': '%s (reproduce: %s %s)' % (kind, os.path.basename(h), ' '.join(args))})
        if rc != 0 and not m:
            wit.append({'suite': 'silkplc-search', 'input': ' '.join(args), 'expected': 'harness completes',
                        'observed': 'exit %d: %s' % (rc, err[-600:]), 'why': 'search harness died'})
        samples.append('%s %s: %s' % (variant, ' '.join(args), m.group(0) if m else 'no summary'))
    return {'cases': cases, 'distinct': len(kinds), 'oracle': search.__doc__, 'samples': samples, 'witnesses': wit[:20],
            'witness_kinds': kinds, 'statistics': stats}
