"""C16 — packet extensions round-trip through generate, parse and repacketize (DESIGN.md §7.C16)."""
import os, re, subprocess
import common

LEAN_MODULES = ['OpusProps.C16']
GEN = []
SOURCES = ['src/extensions.c', 'src/repacketizer.c', 'src/opus_private.h', 'src/opus.c']
RULE = ('structured extension lists (ids 3..127, frames < nb_frames <= 48, payload lengths around 0/1/254/255/256/509/510/765 '
        'and occasionally ~70000, repeat-eligible runs, trailing-short and last-long L=0 shapes, unsorted frame order, lists of '
        '2000..9000 entries, invalid id/frame/len/nb_frames) generated dry / exact / size-1 / padded and read back by every '
        'reader; arbitrary, token-biased and mutated bytes as padding; iterator op sequences (next/reset/set_frame_max/find); '
        'repacketizer op sequences (cat / out_range / out_range_impl with extension lists, pad_impl) from the C07 harness; '
        'a case is distinct by its (op, outcome kind) class')
NOT_COVERED = [
    'repacketizer carriage of extensions (merge/split/pad): the theorem is OpusProps.C07.out_roundtrip_ext (built on generate_parse / '
    'generate_parse_padded of this property); here it is tied differentially (S3, ext-repack) and searched on the implementation (S4)',
    'opus_int32 arithmetic is proved exact (int_ranges_iter / _count / _generate) only below these limits; beyond them the C code '
    'computes a signed overflow the unbounded-integer model does not have: (a) the int count of opus_packet_extensions_count / '
    '_count_ext exceeds INT_MAX for crafted padding of len >= 2^31/nb_frames bytes (44.7 MB at 48 frames; bound nb_frames*len, '
    'reached up to one byte: int_ranges_count_tight); (b) length_bytes + ext->len in write_extension_payload for a long extension '
    'of ext->len >= 2139095040 bytes; (c) on unvalidated lengths, before the call is rejected with BAD_ARG: the write-only variable '
    'trailing_short_len of opus_packet_extensions_generate (+= extensions[i].len, not in the model) and the ID byte sum (id<<1) + '
    'ext->len for a short ID with ext->len > INT32_MAX - 2*id (gcc narrows both away: no UBSan report at -fsanitize=undefined)',
    'the lacing-loop ranges of int_ranges_iter are stated on lacingTrace, a 6-line function with the recursion of the model\'s lacing '
    'that lists (len, bytes, header_size) after each pass (lacing_mem_trace: its last entry is what lacing returns)',
    'iterator constructed with nb_frames = 0 whose frame_max is then raised above 0 by opus_extension_iterator_set_frame_max: the code then '
    'reports frame-0 extensions although no frame exists. Not reachable through the public API: the extension functions are declared '
    'only in src/opus_private.h (no OPUS_EXPORT, not in include/), set_frame_max has no caller inside the library, and the two internal '
    'callers that can pass nb_frames = 0 (repacketizer.c:151,170 for the non-first frames of a packet) pass len = 0 and never touch '
    'frame_max. iter_safe therefore carries the precondition nb_frames = 0 -> frame_max <= 0 (Reach.setFrameMax)',
]
ASSUMPTIONS = ['len argument equals the length of the supplied buffer (exact-size heap blocks under ASan)',
               'callers of the (library-internal) iterator do not raise frame_max above 0 on an iterator created with nb_frames = 0',
               'extension payload pointers supply at least len readable bytes']
REQUIRED_THEOREMS = ['OpusProps.C16.iter_safe', 'OpusProps.C16.iter_terminates', 'OpusProps.C16.count_parse_agree',
                     'OpusProps.C16.parse_ext_stable_sort', 'OpusProps.C16.find_spec',
                     'OpusProps.C16.generate_dry_eq_written', 'OpusProps.C16.generate_exact_and_smaller',
                     'OpusProps.C16.generate_within', 'OpusProps.C16.generate_bad_arg', 'OpusProps.C16.generate_bad_len',
                     'OpusProps.C16.generate_parse', 'OpusProps.C16.generate_parse_padded', 'OpusProps.C16.generate_parse_ext',
                     'OpusProps.C16.fixed_point',
                     'OpusProps.C16.parse_canonical',
                     'OpusProps.C16.int_ranges_iter', 'OpusProps.C16.int_ranges_count', 'OpusProps.C16.int_ranges_count_tight',
                     'OpusProps.C16.int_ranges_generate']
UNPROVED = []


def _cases(ctx, quick, thorough):
    return str(quick if ctx.quick else thorough)


def ties(ctx):
    # compile both harnesses before the long runs (the shared library cache may be pruned by concurrent checks)
    h = ctx.harness('c16_ext', ['c16_ext.c'], variant='san')
    hr = ctx.harness('c07_repack', ['c07_repack.c'], variant='san')
    out = []
    out.append(common.run_tie('ext-rand', [h, 'rand', str(ctx.seed), _cases(ctx, 2000, 20000)]))
    out.append(common.run_tie('ext-bytes', [h, 'bytes', str(ctx.seed + 1000), _cases(ctx, 24000, 300000)]))
    # extension carriage through the repacketizer (merge / split / pad_impl with extension lists): op sequences of the C07
    # harness (read-only use) through opus_repacketizer_out_range_impl, answered by the C07 model, which collects,
    # renumbers and re-emits extensions with this model's parse / generate
    out.append(common.run_tie('ext-repack', [hr, 'rand', str(ctx.seed + 2000), _cases(ctx, 1500, 30000)]))
    # check.py looks at the first mismatches only: put those that are property violations on the
    # implementation (a concrete failing input) in front of plain model/implementation disagreements
    for tr in out:
        tr.mismatches.sort(key=lambda mm: 0 if classify(ctx, tr, mm) else 1)
    return out


def _refs(s):
    """'id.frame.off.len;…' -> list of tuples, None if the field is an error name."""
    if s == '-':
        return []
    out = []
    for t in s.split(';'):
        m = re.match(r'^\??(-?\d+)\.(-?\d+)\.(-?\d+)\.(-?\d+)$', t)
        if not m:
            return None
        out.append(tuple(int(x) for x in m.groups()))
    return out


def _ext_bad(e, nbf, n, fmax=None):
    i, f, off, ln = e
    if not (3 <= i <= 127):
        return 'id %d outside 3..127' % i
    if not (0 <= f < nbf):
        return 'extension reported for non-existent frame %d (nb_frames=%d)' % (f, nbf)
    if ln < 0 or off < 0 or off + ln > n:
        return 'payload [%d,%d) outside the %d-byte buffer' % (off, off + ln, n)
    if fmax is not None and f >= fmax:
        return 'extension of frame %d reported although frame_max=%d' % (f, fmax)
    return None


def _impl_predicates(inp, impl):
    """Evaluate the clauses of the property that concern a single call on the IMPLEMENTATION's own
    answer (no model involved).  Returns a reason string when a clause fails."""
    t = inp.split(' ')
    if len(t) >= 4 and t[0] == 'ext' and t[1] == 'scan':
        nbf, n = int(t[2]), (len(t[3]) - 1) // 2
        f = dict(x.split('=', 1) for x in impl.split(' ') if '=' in x)
        try:
            cnt = int(f['cnt']); cxn, cxl = f['cx'].split(':')
            per = [] if cxl == '-' else [int(x) for x in cxl.split(',')]
        except (KeyError, ValueError):
            return None
        if int(cxn) != cnt or sum(per) != cnt:
            return 'count=%d, count_ext=%s with per-frame sum %d disagree' % (cnt, cxn, sum(per))
        it, _, fin = f.get('it', '').rpartition('|')
        itl, pl, pxl = _refs(it), _refs(f.get('p', '')), _refs(f.get('px', ''))
        for l in (itl, pl, pxl):
            for e in (l or []):
                r = _ext_bad(e, nbf, n)
                if r:
                    return r
        if itl is not None and len(itl) != cnt:
            return 'iteration yields %d extensions, count says %d' % (len(itl), cnt)
        if pl is not None and itl is not None and (pl != itl or fin != 'D'):
            return 'parse succeeded with a list different from iteration (or iteration ended INVALID)'
        if pl is None and f.get('p') == 'INVALID_PACKET' and fin != 'X':
            return 'parse says INVALID_PACKET but iteration ended normally'
        if pl is not None and pxl is not None and pxl != sorted(pl, key=lambda e: e[1]):
            return 'parse_ext is not the stable sort of parse by frame'
        if pl is not None and f.get('px') not in (None, '-') and pxl is None:
            return 'parse succeeded but parse_ext failed: %s' % f.get('px')
    elif len(t) >= 5 and t[0] == 'ext' and t[1] == 'iter':
        nbf, n, ops = int(t[2]), (len(t[3]) - 1) // 2, t[4].split(',')
        res = impl.split(' ')[1:]
        fmax = None
        for op, r in zip(ops, res):
            if op.startswith('m'):
                fmax = int(op[1:])
            elif r.startswith('E'):
                e = _refs(r[1:])
                if e:
                    why = _ext_bad(e[0], nbf, n, fmax)
                    if why:
                        return why
                    if op.startswith('f') and e[0][0] != int(op[1:]):
                        return 'find(%s) returned id %d' % (op[1:], e[0][0])
    elif len(t) >= 6 and t[0] == 'ext' and t[1] == 'gen':
        m = re.match(r'^OK (\d+)', impl)
        if m and int(m.group(1)) > int(t[3]):
            return 'generate returned %s > len=%s' % (m.group(1), t[3])
    return None


def _judge_repack(ctx, tie, mm):
    """A disagreement on a repacketizer line: re-run the line on the implementation and evaluate the carriage clauses
    (output parses, audio frames byte-identical, extensions per frame identical, length / guard) — harness mode `judge`."""
    key = mm.get('input', '')
    cache = ctx.__dict__.setdefault('_c16_judge', {})
    if key not in cache:
        h = ctx.harness('c16_ext', ['c16_ext.c'], variant='san')
        env = dict(os.environ)
        env.setdefault('ASAN_OPTIONS', 'detect_leaks=0:abort_on_error=0')
        p = subprocess.run([h, 'judge'], input=key + '\n', stdout=subprocess.PIPE, stderr=subprocess.PIPE, text=True, env=env)
        w = None
        for l in p.stdout.split('\n'):
            if l.startswith('W '):
                parts = [x.strip() for x in l[2:].split(' | ')]
                if len(parts) >= 4:
                    w = {'suite': tie.name, 'input': parts[1][:200000], 'expected': parts[2], 'observed': parts[3],
                         'why': 'property clause "%s" fails on the implementation (model answer: %s)' % (parts[0], str(mm.get('model'))[:300])}
                    break
            elif l.startswith('O SANITIZER') or l.startswith('O ABORT'):
                w = {'suite': tie.name, 'input': key[:200000], 'expected': 'no sanitizer report / assert', 'observed': l[2:],
                     'why': 'memory-safety failure on this input'}
                break
        cache[key] = w
    return cache[key]


def classify(ctx, tie, mm):
    # A model/implementation disagreement is not by itself a violation of the (relational) property.
    # Sanitizer reports and aborts are ("never read outside the buffer"); otherwise the single-call clauses
    # of the property are evaluated on the implementation's own answer for the disagreeing input.
    impl = str(mm.get('impl', ''))
    if impl in ('SANITIZER', 'ABORT', 'SIGSEGV') or impl.startswith('GUARD_OVERWRITTEN'):
        return {'suite': tie.name, 'input': mm.get('input', ''), 'expected': mm.get('model'), 'observed': impl,
                'why': 'memory-safety failure (sanitizer report, hardening assert or guard bytes overwritten) on this input'}
    if str(mm.get('input', '')).startswith('repack '):
        return _judge_repack(ctx, tie, mm)
    try:
        why = _impl_predicates(mm.get('input', ''), impl)
    except Exception:
        why = None
    if why:
        return {'suite': tie.name, 'input': mm.get('input', ''), 'expected': mm.get('model'), 'observed': impl[:2000],
                'why': 'the implementation\'s own answer violates the property: ' + why}
    return None


def search(ctx):
    """Property predicates on the implementation only (harness mode `prop`)."""
    h = ctx.harness('c16_ext', ['c16_ext.c'], variant='san')
    n = 4000 if ctx.quick else 60000
    env = dict(os.environ)
    env.setdefault('ASAN_OPTIONS', 'detect_leaks=0:abort_on_error=0')
    p = subprocess.run([h, 'prop', str(ctx.seed + 7), str(n)], stdout=subprocess.PIPE, stderr=subprocess.PIPE, text=True, env=env)
    wit, cases, distinct, samples = [], 0, 0, []
    for line in p.stdout.split('\n'):
        if line.startswith('W '):
            parts = [x.strip() for x in line[2:].split(' | ')]
            if len(parts) >= 4:
                wit.append({'suite': 'ext-prop', 'input': parts[1][:200000], 'expected': parts[2], 'observed': parts[3],
                            'why': 'property clause "%s" fails on the implementation' % parts[0]})
        elif line.startswith('P '):
            m = re.search(r'cases=(\d+) distinct=(\d+)', line)
            cases, distinct = int(m.group(1)), int(m.group(2))
            samples.append(line[2:])
        elif line.startswith('O SANITIZER') or line.startswith('O ABORT'):
            wit.append({'suite': 'ext-prop', 'input': 'prop %d %d' % (ctx.seed + 7, n), 'expected': 'no sanitizer report / assert',
                        'observed': line[2:] + ' ' + p.stderr[-1500:], 'why': 'memory-safety failure during the property run'})
    if p.returncode != 0 and not wit:
        wit.append({'suite': 'ext-prop', 'input': 'prop %d %d' % (ctx.seed + 7, n), 'expected': 'harness exits 0',
                    'observed': 'exit %d: %s' % (p.returncode, p.stderr[-1500:]), 'why': 'property harness crashed'})
    return {'cases': cases, 'distinct': distinct,
            'oracle': 'generate→parse_ext round trip (per frame, in order, same payloads), dry-run size == written size, exact size '
                      'suffices, smaller refused with guard bytes intact, count == count_ext == parse length == iterator, reported '
                      'extensions inside the buffer with 3<=id<=127 and frame<nb_frames, parse→generate→parse fixed point, '
                      'repacketizer merge/split/pad_impl (incl. extension blocks of 253..256, 507..511, 761..766, 1015..1021, 1270..1276 bytes): output '
                      'parses, audio frames byte-identical, each extension on the output frame of its audio frame with identical payload, '
                      'length <= maxlen, guard bytes intact',
            'samples': samples, 'witnesses': wit}


LEVEL_TEXT = ('proof of the Lean transcription of src/extensions.c: the iterator terminates by construction and is proved never to '
              'read outside the padding, never to trip its asserts, and to report only extensions inside the buffer that belong to '
              'existing frames; count/parse/iterate agree; generator size clauses (dry = written, exact size suffices, smaller '
              'refused, nothing written outside); full generate->parse / parse_ext round trip including the repeat mechanism, and the '
              'parse->generate->parse fixed point')
LEVEL_NOTE = ('trusted: Lean kernel; the correspondence harness and line protocol; bytes as naturals < 256; C int as unbounded Int. '
              'Repacketizer carriage and BAD_ARG for invalid payload lengths rest on S3/S4 only.')
TECHNIQUE = 'Lean 4 theorems about an executable transcription + differential correspondence under ASan/UBSan + property search'
