"""C16 — packet extensions round-trip through generate, parse and repacketize (DESIGN.md §7.C16)."""
import os, re, subprocess
import common

LEAN_MODULES = ['OpusProps.C16']
GEN = []
SOURCES = ['src/extensions.c', 'src/repacketizer.c', 'src/opus_private.h', 'src/opus.c']
RULE = ('structured extension lists (ids 3..127, frames < nb_frames <= 48, payload lengths around 0/1/254/255/256/509/510/765 '
        'and occasionally ~70000, repeat-eligible runs, trailing-short and last-long L=0 shapes, unsorted frame order, lists of '
        '2000..9000 entries, invalid id/frame/len/nb_frames) generated dry / exact / size-1 / padded and read back by every '
        'reader; arbitrary, token-biased and mutated bytes as padding; iterator op sequences (next/reset/set_frame_max/find); '
        'a case is distinct by its (op, outcome kind) class')
NOT_COVERED = [
    'generate→parse round trip is proved only for lists on which the generator does not use the repeat mechanism '
    '(generate_parse_partial); with repeats it is only searched (S4) and tied differentially (S3)',
    'repacketizer carriage of extensions (merge/split) is searched on the implementation and tied through the C07 model, not proved',
    'opus_int32 overflow of lengths: lengths are unbounded integers in the model (buffers < 2^31 assumed)',
]
ASSUMPTIONS = ['len argument equals the length of the supplied buffer (exact-size heap blocks under ASan)',
               'extension payload pointers supply at least len readable bytes']
REQUIRED_THEOREMS = []


def _cases(ctx, quick, thorough):
    return str(quick if ctx.quick else thorough)


def ties(ctx):
    h = ctx.harness('c16_ext', ['c16_ext.c'], variant='san')
    out = []
    out.append(common.run_tie('ext-rand', [h, 'rand', str(ctx.seed), _cases(ctx, 2500, 40000)]))
    out.append(common.run_tie('ext-bytes', [h, 'bytes', str(ctx.seed + 1000), _cases(ctx, 30000, 600000)]))
    return out


def classify(ctx, tie, mm):
    # A model/implementation disagreement is not by itself a violation of the (relational) property;
    # sanitizer reports and aborts are: "never read outside the buffer".
    if mm.get('impl') in ('SANITIZER', 'ABORT', 'SIGSEGV') or str(mm.get('impl', '')).startswith('GUARD_OVERWRITTEN'):
        return {'suite': tie.name, 'input': mm.get('input', ''), 'expected': mm.get('model'), 'observed': mm.get('impl'),
                'why': 'memory-safety failure (sanitizer report, hardening assert or guard bytes overwritten) on this input'}
    return None


def search(ctx):
    """Property predicates on the implementation only (harness mode `prop`)."""
    h = ctx.harness('c16_ext', ['c16_ext.c'], variant='san')
    n = 4000 if ctx.quick else 60000
    env = dict(os.environ)
    env.setdefault('ASAN_OPTIONS', 'detect_leaks=0:abort_on_error=0')
    p = subprocess.run([h, 'prop', str(ctx.seed + 7), str(n)], stdout=subprocess.PIPE, stderr=subprocess.PIPE, text=True, env=env)
    wit, cases, distinct, samples = [], 0, 0, []
    for line in p.stdout.split('\n'):
        if line.startswith('W '):
            parts = [x.strip() for x in line[2:].split(' | ')]
            if len(parts) >= 4:
                wit.append({'suite': 'ext-prop', 'input': parts[1][:200000], 'expected': parts[2], 'observed': parts[3],
                            'why': 'property clause "%s" fails on the implementation' % parts[0]})
        elif line.startswith('P '):
            m = re.search(r'cases=(\d+) distinct=(\d+)', line)
            cases, distinct = int(m.group(1)), int(m.group(2))
            samples.append(line[2:])
        elif line.startswith('O SANITIZER') or line.startswith('O ABORT'):
            wit.append({'suite': 'ext-prop', 'input': 'prop %d %d' % (ctx.seed + 7, n), 'expected': 'no sanitizer report / assert',
                        'observed': line[2:] + ' ' + p.stderr[-1500:], 'why': 'memory-safety failure during the property run'})
    if p.returncode != 0 and not wit:
        wit.append({'suite': 'ext-prop', 'input': 'prop %d %d' % (ctx.seed + 7, n), 'expected': 'harness exits 0',
                    'observed': 'exit %d: %s' % (p.returncode, p.stderr[-1500:]), 'why': 'property harness crashed'})
    return {'cases': cases, 'distinct': distinct,
            'oracle': 'generate→parse_ext round trip (per frame, in order, same payloads), dry-run size == written size, exact size '
                      'suffices, smaller refused with guard bytes intact, count == count_ext == parse length == iterator, reported '
                      'extensions inside the buffer with 3<=id<=127 and frame<nb_frames, parse→generate→parse fixed point, '
                      'repacketizer merge/split carries each extension to the output frame of its audio frame',
            'samples': samples, 'witnesses': wit}


LEVEL_TEXT = ('proof of the Lean transcription of src/extensions.c: the iterator terminates by construction and is proved never to '
              'read outside the padding, never to trip its asserts, and to report only extensions inside the buffer that belong to '
              'existing frames; count/parse/iterate agree; generator size clauses (dry = written, exact size suffices, smaller '
              'refused); round trip proved for lists without repeat-eligible runs (partial), the repeat mechanism is tied and searched')
LEVEL_NOTE = ('trusted: Lean kernel; the correspondence harness and line protocol; bytes as naturals < 256; C int as unbounded Int. '
              'Round trip through the repeat mechanism and repacketizer carriage rest on S3/S4 only.')
TECHNIQUE = 'Lean 4 theorems about an executable transcription + differential correspondence under ASan/UBSan + property search'
