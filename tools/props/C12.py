"""C12 — codec state is deterministic, freely copyable and reset-equivalent (DESIGN.md §7.C12, §9-F2).

S0  tools/extract/StructFields.c -> lean/OpusModel/Gen/StructFields.lean: every member of OpusEncoder / OpusDecoder /
    the SILK control structs / the CELT configuration (offset, size, alignment, kind, side of the reset marker),
    get_size and the sub-state layout, every pointer-typed member with where it is observed to point, a conservative
    self-pointer scan of used objects, the member values after init.  pre_build cross-checks the member lists
    against the compiler's debug information (gdb ptype/o, nested).
S1  OpusProps.C12: reset_eq_init / reset_indistinguishable / dec_reset_eq_init on OpusModel.ResetState,
    no_self_pointers / get_size_covers_state / model_fields_cover_struct / init_matches_code on the
    regenerated description.
S3  harness/c12_state.c `tie`: members after init / after OPUS_RESET_STATE (states reached by random histories and
    poisoned states) / after every setting request / after the multistream, projection and multistream-decoder reset
    (per-stream member lists), compared exactly with the Lean model; members before and after real decode calls checked
    against the structural claims of the decode footprint (suite `misc`).
S4  harness/c12_twin.c: twin objects — memcpy clone vs. original, reset vs. new object with the settings replayed,
    same history twice (zero-filled vs 0x5A-poisoned heap and stack, decoy objects alive) — for encoder, decoder, multistream
    encoder/decoder, projection encoder/decoder, repacketizer, at every OPUS_VERIF_ARCH_CAP level; byte equality of
    packets, PCM bit patterns, final ranges and getter values.  corpus/C12/*.json (the six witnesses of the reset defect
    repaired by 14e3a558) run first.  Every difference is a witness; encoder/decoder reset
    differences are attributed to the surviving member that causes them (c12_state attrib)."""
import hashlib, os, re, subprocess, time
from concurrent.futures import ThreadPoolExecutor
import common

LEAN_MODULES = ['OpusProps.C12']
GEN = ['StructFields']
SOURCES = ['src/opus_encoder.c', 'src/opus_decoder.c', 'celt/celt_encoder.c', 'celt/celt_decoder.c',
           'silk/init_encoder.c', 'silk/init_decoder.c', 'silk/enc_API.c', 'silk/dec_API.c', 'silk/control.h',
           'silk/control_audio_bandwidth.c', 'src/analysis.c', 'src/analysis.h', 'include/opus.h',
           'src/opus_multistream_encoder.c', 'src/opus_multistream_decoder.c', 'src/opus_projection_encoder.c',
           'src/opus_projection_decoder.c', 'src/repacketizer.c', 'src/opus_private.h', 'celt/x86/x86cpu.c']
REQUIRED_THEOREMS = ['OpusProps.C12.reset_eq_init', 'OpusProps.C12.reset_indistinguishable',
                     'OpusProps.C12.dec_reset_eq_init', 'OpusProps.C12.dec_reset_indistinguishable',
                     'OpusProps.C12.ms_reset_eq_init', 'OpusProps.C12.ms_dec_reset_eq_init',
                     'OpusProps.C12.reset_eq_init_by_requests', 'OpusProps.C12.decode_footprint_check_sound',
                     'OpusProps.C12.no_self_pointers', 'OpusProps.C12.get_size_covers_state',
                     'OpusProps.C12.model_fields_cover_struct', 'OpusProps.C12.init_matches_code']
UNPROVED = [
    'encode / decode footprint = code: which members each phase of opus_encode_native / opus_decode_native reads before '
    'writing is a hand transcription (OpusModel.ResetState.View / DecView, encodeStep / decodeStep); it is validated by the '
    'attribution and poke-sensitivity searches (one member changed at a time), not derived from the C source',
    'multistream / projection encode and decode calls (rate allocation, surround analysis, channel mapping, mixing matrices) '
    'are not modelled: ms_reset_eq_init is the state form plus per-stream call sequences; ten of its MsObsEq conjuncts hold by '
    'definition of msEncFresh (that the reset leaves those members alone is checked by the `misc msreset` correspondence)',
    'decodeStep is tied to the code only through its structural claims (suite `misc decstep`: constants never written; what a '
    'concealment call and a packet call may change in prev_mode / prev_redundancy / DecControl); which members the DSP reads is '
    'measured by the poke experiment; encodeStep has no such step-level tie (init / reset / every setting request are tied exactly)',
]
RULE = ('twin-object cases drawn from the seed: (object kind, Fs, channels, application / mapping family, scenario) + a random '
        'history of setting requests, getter sweeps, resets and encode/decode calls (float, int16, int24; 2.5-120 ms; tiny '
        'and large byte budgets; silence, tone, speech-like, music-like, noise, clipping; lost packets, FEC, damaged packets) '
        'with a random cut point; a case is distinct by (mode, kind, Fs, channels, application, family); scenarios bias the '
        'encoder towards the FEC hysteresis zone, mode switching with prediction disabled, and silence/DTX')
NOT_COVERED = [
    'cross-arch equality is C15\'s: every twin equivalence (clone, reset, determinism) is checked AT each OPUS_VERIF_ARCH_CAP '
    'level (both twins run at the same level), never ACROSS levels; an optimised kernel that is self-consistent but answers '
    'differently from the C kernel (seeded change C12-m5, SSE4.1 LTP codebook tie-break) leaves C12 satisfied and is '
    'caught by C15 (kernels match the portable code)',
    'determinism / copyability / reset-equivalence of the DSP interior (SILK, CELT, tonality analysis, resamplers): searched '
    'by the twin harness (byte equality under poisoned heap and stack, decoy objects, every RTCD level), not proved',
    'absence of uninitialised reads: explored with zero / 0x5A / 0xA5 heap+stack+output-buffer fills and ASan in both tiers, and with a '
    'clang MemorySanitizer build of library + twin harness (shadow of every packet / PCM byte checked) in the thorough tier only',
    'multistream / projection OPUS_GET_BITRATE and OPUS_GET_FORCE_CHANNELS after a reset report what the layer wrote into the '
    'stream encoders for the previous frame (rewritten before every encode); they are not compared in reset mode',
    'OPUS_SET_VOICE_RATIO (private, overwritten by every non-silent frame) is not used in histories; OPUS_SET_FORCE_MODE '
    '(private, used by the multistream layer) is used in 30 % of the encoder cases, marked priv1',
    'SILK decoder nChannelsAPI/nChannelsInternal survive silk_ResetDecoder (modelled as dead members): harmless by reading of '
    'silk_Decode, searched only',
]
ASSUMPTIONS = [
    'silk_Encode ignores encControl->opusCanSwitch while its state is freshly initialised (fs_kHz == 0: '
    'silk/control_audio_bandwidth.c:45-49) — the gate of View.opusCanSwitchGated',
    'silk_Encode / celt_encode_with_ec do not fail on a reachable state (an internal error would leave opusCanSwitch unwritten)',
    'opus_alloc is plain malloc (heap poisoning goes through ld --wrap=malloc)',
]
TRUSTED = ['gdb (ptype/o) for the cross-check of the extractor\'s member lists',
           'the address-range classification of pointers in tools/extract/StructFields.c (static image = [__executable_start, end))']
LEVEL_TEXT = ('partial: kernel-checked theorems that OPUS_RESET_STATE leaves an encoder / decoder '
              'indistinguishable from a new one carrying the same settings, for every reachable state and every later call '
              'sequence, on a model whose init / reset / setting requests are transcribed member by member and tied exactly to '
              'the code, and whose encode call is a read/write footprint with uninterpreted DSP oracles; decide-checked facts on '
              'the regenerated struct description (no pointer into the object, get_size covers every member, model = struct); '
              'the DSP interior is covered by the twin-object search only')
LEVEL_NOTE = ('determinism of the modelled layers is definitional and not counted; the twin-object harness is the only guard for '
              'the SILK/CELT/analysis interior')
TECHNIQUE = 'Lean 4 theorems (bisimulation over a member-level model) + regenerated struct layout (decide) + twin-object differential search'

_WRAP = ['-Wl,--wrap=malloc']
KINDS = ['enc', 'dec', 'msenc', 'msdec', 'projenc', 'projdec', 'rp']
# cases per (mode, kind) in the quick tier at the default RTCD level
QUICK = {
    'reset': {'enc': 1400, 'dec': 500, 'msenc': 160, 'msdec': 80, 'projenc': 100, 'projdec': 40, 'rp': 100},
    'clone': {'enc': 300, 'dec': 300, 'msenc': 80, 'msdec': 80, 'projenc': 60, 'projdec': 40, 'rp': 200},
    'determ': {'enc': 200, 'dec': 200, 'msenc': 60, 'msdec': 60, 'projenc': 40, 'projdec': 30, 'rp': 100},
}
CAPS_QUICK = [0, 2, 3]       # extra RTCD levels (fraction of the cases); the uncapped level is always run
CAPS_THOROUGH = [0, 1, 2, 3, 4]


def _harness(ctx, name, variant, opt):
    """ctx.harness, robust against the shared library cache being pruned by a concurrent run (keep=8 in common.py):
    if the archive vanished between build_lib and the link, rebuild it once."""
    for attempt in (0, 1, 2):
        try:
            lib = ctx.lib(variant)
            if not os.path.exists(lib.a):
                raise RuntimeError('cannot find %s' % lib.a)
            os.utime(lib.dir)
            return ctx.harness(name, [name + '.c'], variant=variant, extra=_WRAP, opt=opt)
        except RuntimeError as e:
            if attempt == 2 or 'libopus.a' not in str(e):
                raise
            ctx._libs.pop(variant, None)
            import shutil
            shutil.rmtree(os.path.join(common.CACHE, 'lib', '%s-%s' % (common.repo_hash(), variant)), ignore_errors=True)


def _twin(ctx, variant='plain'):
    return _harness(ctx, 'c12_twin', variant, '-O2' if variant == 'plain' else '-O1')


def _state(ctx, variant='plain'):
    return _harness(ctx, 'c12_state', variant, '-O0')     # 4-file white-box TU: only its struct accesses matter, -O0 compiles in seconds


# ------------------------------------------------------------------ S0: cross-check with the debug information
_ROOTS = {'encFields': 'struct OpusEncoder', 'decFields': 'struct OpusDecoder', 'silkEncFields': 'silk_EncControlStruct',
          'silkDecFields': 'silk_DecControlStruct'}


def _gdb_members(exe, typ):
    rc, out = common.sh(['gdb', '-batch', '-ex', 'ptype/o %s' % typ, exe], timeout=120)
    mem = []
    for line in out.split('\n'):
        m = re.match(r'^/\*\s*(\d+)\s*\|\s*(\d+)\s*\*/ {4}(\S.*);\s*$', line)     # top-level members only (4 spaces)
        if not m:
            continue
        decl = m.group(3)
        nm = re.search(r'(\w+)\s*(\[[^\]]*\]\s*)*$', decl)
        if nm:
            mem.append((nm.group(1), int(m.group(1)), int(m.group(2)), '*' in decl))
    return mem


def _moved_members(gen):
    """Members whose side of OPUS_*_RESET_START differs from what the model's reset assumes
    (encAfterMarkerNames / decAfterMarkerNames of OpusModel/ResetState.lean)."""
    model = open(os.path.join(common.LEAN, 'OpusModel', 'ResetState.lean')).read()
    notes = []
    for lname, mname, marker in (('encFields', 'encAfterMarkerNames', 'OPUS_ENCODER_RESET_START'),
                                 ('decFields', 'decAfterMarkerNames', 'OPUS_DECODER_RESET_START')):
        blk = re.search(r'def %s : List Field := \[(.*?)\n\]' % lname, gen, re.S).group(1)
        after = [m.group(1) for m in re.finditer(r'⟨"(\w+)", \d+, \d+, \d+, "\w", true⟩', blk)]
        allm = [m.group(1) for m in re.finditer(r'⟨"(\w+)", ', blk)]
        want = re.findall(r'"(\w+)"', re.search(r'def %s : List String :=\s*\[(.*?)\]' % mname, model, re.S).group(1))
        for n in want:
            if n in allm and n not in after:
                notes.append('%s.%s now lies BEFORE %s: OPUS_RESET_STATE no longer clears it' % (lname[:3], n, marker))
        for n in after:
            if n not in want:
                notes.append('%s.%s now lies AFTER %s: OPUS_RESET_STATE clears it (the model treats it as surviving)' % (lname[:3], n, marker))
    return notes


def pre_build(ctx):
    """The member lists printed by the extractor must be the compiler's (names, offsets, sizes, pointer-ness)."""
    info = {}
    try:
        ctx._c12_moved = _moved_members(open(os.path.join(common.LEAN, 'OpusModel', 'Gen', 'StructFields.lean')).read())
    except Exception as e:
        ctx._c12_moved = ['(could not compare the reset region with the model: %s)' % e]
    exe = os.path.join(common.scratch(), 'extract_StructFields')
    gen = open(os.path.join(common.LEAN, 'OpusModel', 'Gen', 'StructFields.lean')).read()
    if not os.path.exists(exe) or common.sh(['which', 'gdb'])[0] != 0:
        return {'StructFields-dwarf': {'checked': False, 'moved_across_reset_marker': ctx._c12_moved}}
    bad = []
    for lname, typ in _ROOTS.items():
        blk = re.search(r'def %s : List Field := \[(.*?)\n\]' % lname, gen, re.S).group(1)
        ours = [(m.group(1), int(m.group(2)), int(m.group(3)), m.group(4) == 'P')
                for m in re.finditer(r'⟨"(\w+)", (\d+), (\d+), \d+, "(\w)", \w+⟩', blk)]
        theirs = _gdb_members(exe, typ)
        if not theirs:
            bad.append('%s: gdb printed no members' % typ)
        elif sorted(ours, key=lambda t: t[1]) != sorted(theirs, key=lambda t: t[1]):
            bad.append('%s: extractor list %s differs from debug info %s' % (
                typ, [o for o in ours if o not in theirs][:4], [t for t in theirs if t not in ours][:4]))
        info[lname] = len(theirs)
    if bad:
        raise RuntimeError('tools/extract/StructFields.c (harness/c12_fields.h) is out of date: ' + '; '.join(bad))
    return {'StructFields-dwarf': {'checked': True, 'members': info, 'moved_across_reset_marker': ctx._c12_moved}}


# ------------------------------------------------------------------ S3
def ties(ctx):
    h = _state(ctx, 'plain')      # (the ASan/UBSan build of this 4-file TU takes minutes to compile; the twin harness has a san run)
    env = {}
    n = 700 if ctx.quick else 12000
    tr = common.run_tie('reset-model', [h, 'tie', str(ctx.seed), str(n)], env=env)
    # keep the evidence readable: one distribution entry per operation and outcome kind
    return [tr]


ENC_NAMES = ('celt_enc_offset silk_enc_offset application channels delay_compensation force_channels signal_type user_bandwidth '
             'max_bandwidth user_forced_mode voice_ratio Fs use_vbr vbr_constraint variable_duration bitrate_bps user_bitrate_bps '
             'lsb_depth encoder_buffer lfe arch use_dtx fec_config stream_channels hybrid_stereo_width_Q14 variable_HP_smth2_Q15 '
             'prev_HB_gain mode prev_mode prev_channels prev_framesize bandwidth auto_bandwidth silk_bw_switch first energy_masking '
             'detected_bandwidth nb_no_activity_ms_Q1 peak_signal_energy nonfinal_frame rangeFinal').split() + \
    ['silk_mode.' + x for x in ('nChannelsAPI nChannelsInternal API_sampleRate maxInternalSampleRate minInternalSampleRate '
                                'desiredInternalSampleRate payloadSize_ms bitRate packetLossPercentage complexity useInBandFEC useDRED '
                                'LBRR_coded useDTX useCBR maxBits toMono opusCanSwitch reducedDependency internalSampleRate '
                                'allowBandwidthSwitch inWBmodeWithoutVariableLP stereoWidth_Q14 switchReady signalType offset').split()] + \
    ['celt.' + x for x in ('channels stream_channels force_intra clip disable_pf complexity upsample start end bitrate vbr signalling '
                           'constrained_vbr loss_rate lsb_depth lfe disable_inv arch').split()] + \
    ['analysis.application', 'analysis(fresh)', 'hp_mem(zero)', 'width_mem(zero)', 'delay_buffer(zero)', 'silk_state(fresh)',
     'celt_state(fresh)']
DEC_NAMES = ('celt_dec_offset silk_dec_offset channels Fs DecControl.nChannelsAPI DecControl.nChannelsInternal '
             'DecControl.API_sampleRate DecControl.internalSampleRate DecControl.payloadSize_ms DecControl.prevPitchLag '
             'DecControl.enable_deep_plc decode_gain complexity arch stream_channels bandwidth mode prev_mode frame_size '
             'prev_redundancy last_packet_duration softclip_mem(zero) rangeFinal silk_state(fresh) celt_state(fresh) '
             'celt.complexity celt.disable_inv silk.nChannelsAPI silk.nChannelsInternal').split()


def _differing(mm):
    op = (mm.get('input', '').split() + ['', ''])[1]
    a, b = mm.get('impl', '').split(), mm.get('model', '').split()
    if len(a) < 2 or len(b) < 2 or a[0] != b[0]:
        return op, None
    names = ENC_NAMES if op.startswith('enc') else DEC_NAMES
    x, y = a[1].split(','), b[1].split(',')
    return op, [names[i] if i < len(names) else '#%d' % i for i in range(min(len(x), len(y))) if x[i] != y[i]]


def classify(ctx, tie, mm):
    """A member that the implementation's OPUS_RESET_STATE leaves but the model resets is a property question:
    it is a violation iff the twin search exhibits histories on which reset and a new object differ because of it."""
    op, diff = _differing(mm)
    if op not in ('encreset', 'decreset') or not diff:
        return None
    wits = _reset_witnesses(ctx)
    keys = set(d.replace('celt.', 'celt.').replace('DecControl.', 'DecControl.') for d in diff)
    for w in wits:
        cause = w.get('cause', '')
        if any(re.sub(r'\(.*\)', '', k.split('.')[-1]) in cause for k in keys):
            return dict((k, v) for k, v in w.items() if k != 'cause')
    return None


# ------------------------------------------------------------------ S4
def _run(cmd, env=None, timeout=3000):
    e = dict(os.environ)
    e.setdefault('ASAN_OPTIONS', 'detect_leaks=0:abort_on_error=0')
    e.update(env or {})
    p = subprocess.run(cmd, stdout=subprocess.PIPE, stderr=subprocess.PIPE, text=True, env=e, timeout=timeout)
    return p.returncode, p.stdout, p.stderr


LINE = re.compile(r'^C (\w+) (\w+) (\d+) (\d+) (\S+) ops=(\d+) cut=(\d+) (OK|DIFF)(?: op=(\d+) (.*?) \| exp (.*?) \| obs (.*))?$')


def _jobs(ctx):
    """(mode, kind, first, count, cap, variant)"""
    mult = 1 if ctx.quick else 15
    jobs = []
    for mode, per in QUICK.items():
        for kind, n in per.items():
            n *= mult
            chunk = max(25, n // (4 if ctx.quick else 12))
            for first in range(0, n, chunk):
                jobs.append((mode, kind, first, min(chunk, n - first), None, 'plain'))
    caps = CAPS_QUICK if ctx.quick else CAPS_THOROUGH
    for cap in caps:
        for mode, per in QUICK.items():
            for kind in ('enc', 'dec', 'msenc', 'projdec'):
                n = max(10, per[kind] * mult // (6 if kind in ('enc', 'dec') else 8))
                jobs.append((mode, kind, 1000000 + 1000 * cap, n, cap, 'plain'))
    # sanitizer build: a clone that points into the (freed, poisoned) original is a use-after-free
    for kind in KINDS:
        n = (30 if ctx.quick else 400) if kind != 'projdec' else (10 if ctx.quick else 100)
        jobs.append(('clone', kind, 2000000, n, None, 'san'))
        jobs.append(('reset', kind, 2000000, max(10, n // 2), None, 'san'))
    return jobs


_cache = {}


def _twin_run(ctx, jobs):
    bins = {v: _twin(ctx, v) for v in set(j[5] for j in jobs)}

    def one(j):
        mode, kind, first, count, cap, variant = j
        env = {} if cap is None else {'OPUS_VERIF_ARCH_CAP': str(cap)}
        rc, out, err = _run([bins[variant], 'run', mode, kind, str(ctx.seed), str(first), str(count)], env)
        return j, rc, out, err
    with ThreadPoolExecutor(max_workers=4) as ex:
        return list(ex.map(one, jobs))


def _attrib(ctx, kind, index):
    h = _state(ctx, 'plain')
    rc, out, err = _run([h, 'attrib', kind, str(ctx.seed), str(index), '1'], timeout=300)
    m = re.findall(r'cause=(\S+)', out)
    return ' '.join('cause=' + c for c in m) if m else 'cause=unattributed'


def _ckey(cause):
    return re.sub(r'\([^)]*\)', '', cause)


PRIORITY = ['silk_mode.LBRR_coded', 'silk_mode.allowBandwidthSwitch', 'silk_mode.inWBmodeWithoutVariableLP', 'celt.force_intra',
            'celt.disable_pf', 'enc.voice_ratio', 'DecControl.prevPitchLag']


def _prio(w):
    k = _ckey(w.get('cause', ''))
    for i, p in enumerate(PRIORITY):
        if p in k:
            return i
    return len(PRIORITY)


def _witness(ctx, j, m, attrib=True):
    mode, kind, first, count, cap, variant = j
    idx = int(m.group(4))
    cause = ''
    if attrib and mode == 'reset' and kind in ('enc', 'dec') and cap is None and variant == 'plain':
        cause = _attrib(ctx, kind, idx)
    what = {'clone': 'a memcpy clone of get_size bytes taken at op %s' % m.group(7),
            'reset': 'the object after OPUS_RESET_STATE at op %s vs. a newly initialised object with the same settings replayed' % m.group(7),
            'determ': 'the same history run twice (heap/stack zero-filled vs 0x5A-poisoned, decoy objects alive)'}[mode]
    moved = getattr(ctx, '_c12_moved', [])
    layout = (' [struct layout changed (model_fields_cover_struct breaks): ' + '; '.join(moved) + ']') if moved and mode == 'reset' else ''
    return {
        'suite': 'twin-%s-%s' % (mode, kind),
        'input': 'c12_twin case %s %s %d %d%s%s class=%s %s' % (
            mode, kind, ctx.seed, idx, '' if cap is None else ' OPUS_VERIF_ARCH_CAP=%d' % cap,
            '' if variant == 'plain' else ' variant=' + variant, m.group(5), cause),
        'expected': 'op %s %s -> %s' % (m.group(9), m.group(10), m.group(11)),
        'observed': 'op %s %s -> %s' % (m.group(9), m.group(10), m.group(12)),
        'why': '%s answered a later call differently (return code / packet bytes / PCM bit pattern / final range / getter value)%s' % (what, layout),
        'cause': cause, 'mode': mode, 'kind': kind, 'index': idx, 'cap': cap, 'variant': variant,
    }


def _reset_witnesses(ctx):
    """Targeted search used by classify(): reset twins of the encoder and the decoder."""
    if 'reset' in _cache:
        return _cache['reset']
    jobs = [('reset', 'enc', 3000000 + i * 400, 400, None, 'plain') for i in range(4)] + \
           [('reset', 'dec', 3000000 + i * 200, 200, None, 'plain') for i in range(2)]
    wits, seen = [], set()
    for j, rc, out, err in _twin_run(ctx, jobs):
        for line in out.split('\n'):
            m = LINE.match(line)
            if m and m.group(8) == 'DIFF' and len(wits) < 40:
                w = _witness(ctx, j, m)
                if _ckey(w['cause']) not in seen or len(seen) > 8:
                    seen.add(_ckey(w['cause']))
                    wits.append(w)
    wits.sort(key=lambda w: ('priv1' in w['input'], _prio(w)))
    _cache['reset'] = wits
    return wits


def _corpus(ctx):
    """Minimised past failures (corpus/C12/*.json) — run before anything else."""
    import glob, json
    wits, n = [], 0
    h = _twin(ctx, 'plain')
    for path in sorted(glob.glob(os.path.join(common.VERIF, 'corpus', 'C12', '*.json'))):
        for c in json.load(open(path)).get('cases', []):
            rc, out, err = _run([h, 'run', c['mode'], c['kind'], str(c['seed']), str(c['index']), '1'], timeout=300)
            n += 1
            m = next((LINE.match(l) for l in out.split('\n') if LINE.match(l)), None)
            if rc != 0 or m is None or m.group(8) == 'DIFF':
                wits.append({
                    'suite': 'corpus-%s-%s' % (c['mode'], c['kind']),
                    'input': 'c12_twin case %s %s %d %d corpus=%s (%s)' % (c['mode'], c['kind'], c['seed'], c['index'],
                                                                        os.path.basename(path), c.get('cause', '')),
                    'expected': ('op %s %s -> %s' % (m.group(9), m.group(10), m.group(11))) if m and m.group(9) else 'twin objects answer identically',
                    'observed': ('op %s %s -> %s' % (m.group(9), m.group(10), m.group(12))) if m and m.group(9) else 'exit %d: %s' % (rc, (err or out)[-300:]),
                    'why': 'a recorded past failure differs again: ' + c.get('cause', '')})
    return n, wits



# ------------------------------------------------------------------ poke sensitivity: the read set, measured
# How the hand-written View / DecView of OpusModel.ResetState classify the members (C spelling).  `live`: an
# atomic member of the view; `gated`: compared only while its gate is open (closed right after a reset);
# every other poked member is `dead` (assigned before use on every path).
VIEW_LIVE = {
    'enc': ('application force_channels signal_type user_bandwidth max_bandwidth user_forced_mode voice_ratio use_vbr '
            'vbr_constraint variable_duration user_bitrate_bps lsb_depth lfe use_dtx fec_config stream_channels '
            'hybrid_stereo_width_Q14 variable_HP_smth2_Q15 prev_HB_gain mode prev_mode prev_channels prev_framesize bandwidth '
            'auto_bandwidth silk_bw_switch first detected_bandwidth nb_no_activity_ms_Q1 peak_signal_energy nonfinal_frame '
            'rangeFinal').split(),
    'silk_mode': 'packetLossPercentage complexity useInBandFEC useDRED reducedDependency LBRR_coded allowBandwidthSwitch inWBmodeWithoutVariableLP'.split(),
    'celt': 'force_intra disable_pf complexity loss_rate lfe disable_inv'.split(),
    'dec': 'decode_gain complexity stream_channels bandwidth mode prev_mode frame_size prev_redundancy last_packet_duration rangeFinal'.split(),
    'DecControl': ['prevPitchLag'],
}
VIEW_GATED = {'silk_mode': 'toMono useDTX nChannelsInternal opusCanSwitch'.split(),
              'DecControl': 'nChannelsInternal internalSampleRate'.split()}


def _poke(ctx):
    """harness/c12_state.c poke: one member at a time receives a value it legitimately holds elsewhere (fresh object,
    earlier state of the same history), right after a reset (when=0) or mid-history (when=1); SENSITIVE = some later
    output changes or the call asserts.  Cross-check against the hand-written view: a member sensitive right after a
    reset must be a live member of the view; a member sensitive mid-history must be live or gated; dead members are
    never sensitive."""
    h = _state(ctx, 'plain')
    n = {'enc': 16, 'dec': 24} if ctx.quick else {'enc': 240, 'dec': 300}
    jobs = []
    for kind in ('enc', 'dec'):
        chunk = max(8, n[kind] // (2 if ctx.quick else 12))
        for when in (0, 1):
            for first in range(0, n[kind], chunk):
                jobs.append((kind, when, first, min(chunk, n[kind] - first)))

    def one(j):
        rc, out, err = _run([h, 'poke', j[0], str(ctx.seed), str(4000000 + j[2]), str(j[3]), str(j[1])], timeout=3000)
        return j, rc, out, err
    tab, failed = {}, []
    with ThreadPoolExecutor(max_workers=4) as ex:
        for j, rc, out, err in ex.map(one, jobs):
            if rc != 0:
                failed.append('poke %s: exit %d %s' % (j, rc, (err or '')[-200:]))
            for m in re.finditer(r'^K (\w+) (\d) (\w+)\.(\w+) trials=(\d+) sens=(\d+) crash=(\d+)$', out, re.M):
                key = (m.group(3), m.group(4), int(m.group(2)))
                t = tab.setdefault(key, [0, 0, 0])
                t[0] += int(m.group(5)); t[1] += int(m.group(6)); t[2] += int(m.group(7))
    bad, table = [], {}
    for (tag, name, when), (tr, se, cr) in sorted(tab.items()):
        cls = 'live' if name in VIEW_LIVE.get(tag, []) else 'gated' if name in VIEW_GATED.get(tag, []) else 'dead'
        table.setdefault('%s.%s' % (tag, name), {'view': cls})['after_reset' if when == 0 else 'mid_history'] = [tr, se, cr]
        if se and (cls == 'dead' or (cls == 'gated' and when == 0)):
            bad.append('%s.%s is %s in the view but was sensitive in %d of %d experiments %s' % (
                tag, name, cls, se, tr, 'right after a reset' if when == 0 else 'mid-history'))
    return {'experiments': sum(v[0] for v in tab.values()), 'members': len(table), 'table': table,
            'view_contradicted': bad, 'errors': failed}


# ------------------------------------------------------------------ MemorySanitizer (thorough tier)
def _msan(ctx):
    """clang MemorySanitizer build of the library (`msan` variant of tools/common.py: _FORTIFY_SOURCE off, because MSan
    does not intercept __memset_chk and every OPUS_CLEAR would otherwise leave its target 'uninitialised') and of the twin
    harness.  The harness does not fill heap and stack in this build (__has_feature(memory_sanitizer)) and checks the
    shadow of every packet / PCM buffer it receives."""
    import shutil
    if not shutil.which('clang'):
        return {'ran': False, 'why': 'clang not installed'}, []
    exe = _harness(ctx, 'c12_twin', 'msan', '-O1')
    per = {'enc': 300, 'dec': 300, 'msenc': 80, 'msdec': 80, 'projenc': 50, 'projdec': 30, 'rp': 100}
    jobs = [(m, k, 5000000, per[k]) for k in KINDS for m in ('determ', 'clone', 'reset')]

    def one(j):
        rc, out, err = _run([exe, 'run', j[0], j[1], str(ctx.seed), str(j[2]), str(j[3])], timeout=3000)
        return j, rc, out, err
    wits, cases = [], 0
    with ThreadPoolExecutor(max_workers=4) as ex:
        for j, rc, out, err in ex.map(one, jobs):
            good = sum(1 for l in out.split('\n') if l.endswith(' OK'))
            cases += good
            rep = [l for l in (out + err).split('\n') if 'MemorySanitizer' in l or l.startswith('MSAN-OUTPUT') or re.match(r'\s+#[0-3] ', l)][:8]
            diff = [l for l in out.split('\n') if ' DIFF ' in l][:1]
            if rc != 0 or diff:
                wits.append({'suite': 'msan-%s-%s' % (j[0], j[1]),
                             'input': 'c12_twin run %s %s %d %d %d variant=msan (case index %d is the first not completed)' % (
                                 j[0], j[1], ctx.seed, j[2], j[3], j[2] + good),
                             'expected': 'no use of uninitialised memory; every output byte initialised; twins equal',
                             'observed': ' | '.join(rep + diff)[:900] or 'exit %d' % rc,
                             'why': 'MemorySanitizer: the result of a call depends on memory the library never initialised '
                                    '(process memory contents)'})
    return {'ran': True, 'cases': cases, 'reports': len(wits)}, wits


def search(ctx):
    t0 = time.time()
    n_corpus, corpus_w = _corpus(ctx)
    jobs = _jobs(ctx)
    cases, classes, samples, witnesses, per = n_corpus, set(), [], [], {}
    crashed = list(corpus_w)
    for j, rc, out, err in _twin_run(ctx, jobs):
        mode, kind, first, count, cap, variant = j
        got = 0
        for line in out.split('\n'):
            m = LINE.match(line)
            if not m:
                continue
            got += 1
            cases += 1
            cls = re.sub(r'/scen\d+/priv\d+$', '', m.group(5))
            classes.add((mode, cls))
            key = '%s/%s%s%s' % (mode, kind, '' if cap is None else '/cap%d' % cap, '' if variant == 'plain' else '/' + variant)
            ok, bad = per.get(key, (0, 0))
            if m.group(8) == 'DIFF':
                per[key] = (ok, bad + 1)
                if sum(1 for w in witnesses if w['suite'] == 'twin-%s-%s' % (mode, kind)) < 12:
                    witnesses.append(_witness(ctx, j, m, attrib=len(witnesses) < 30))
            else:
                per[key] = (ok + 1, bad)
                if len(samples) < 3 and got == 1:
                    samples.append(line[:200])
        if rc != 0 or got != count:
            crashed.append({'suite': 'twin-%s-%s' % (mode, kind),
                            'input': 'c12_twin run %s %s %d %d %d%s variant=%s' % (mode, kind, ctx.seed, first, count,
                                                                                '' if cap is None else ' OPUS_VERIF_ARCH_CAP=%d' % cap, variant),
                            'expected': '%d cases, exit 0' % count,
                            'observed': 'exit %d after %d cases: %s' % (rc, got, (err or '')[-600:]),
                            'why': 'the twin harness crashed / a sanitizer reported (a clone or a reset object touched memory '
                                   'it does not own, or a hardening assertion fired)'})
    poke = _poke(ctx)
    if poke['view_contradicted'] or poke['errors']:
        raise RuntimeError('the measured read set contradicts OpusModel.ResetState.View / DecView (the footprint model is '
                           'not the code): ' + '; '.join(poke['view_contradicted'] + poke['errors'])[:1500])
    msan = {'ran': False, 'why': 'thorough tier only'}
    if not ctx.quick:
        msan, msan_w = _msan(ctx)
        crashed.extend(msan_w)
        cases += msan.get('cases', 0)
    # one witness per distinct cause first (public-API-only histories first), then the rest
    witnesses.sort(key=lambda w: ('priv1' in w['input'], w['mode'] != 'reset', _prio(w)))
    first, rest, seen = [], [], set()
    for w in witnesses:
        k = (w['suite'], _ckey(w['cause']))
        (rest if k in seen else first).append(w)
        seen.add(k)
    out_w = [dict((k, v) for k, v in w.items() if k in ('suite', 'input', 'expected', 'observed', 'why')) for w in first + rest]
    return {'cases': cases, 'distinct': len(classes), 'seconds': round(time.time() - t0, 1),
            'oracle': 'twin objects fed identical calls must return identical codes, packet bytes, PCM bit patterns, final ranges '
                      'and getter values: clone vs original (original then poisoned and freed), reset vs new object with the '
                      'settings replayed, same history under zero-filled vs 0x5A-poisoned heap+stack with decoy objects; plain and ASan/UBSan builds; '
                      'RTCD caps %s + uncapped' % (CAPS_QUICK if ctx.quick else CAPS_THOROUGH),
            'corpus_cases': n_corpus, 'corpus_failures': len(corpus_w),
            'poke_read_set': poke, 'msan': msan,
            'per_suite_ok_diff': {k: list(v) for k, v in sorted(per.items())},
            'causes': sorted(set(_ckey(w['cause']) for w in witnesses if w['cause'])),
            'samples': samples, 'witnesses': crashed + out_w}


def replay(ctx, obj):
    m = re.match(r'c12_twin case (\w+) (\w+) (\d+) (\d+)(?: OPUS_VERIF_ARCH_CAP=(\d+))?(?: variant=(\w+))?', obj.get('input', ''))   # corpus witnesses use the same prefix
    if not m:
        print('replay: not a twin witness; re-running the check')
        os.execv('/usr/bin/env', ['env', 'python3', os.path.join(common.VERIF, 'tools', 'check.py'), 'C12', '--tier', obj.get('tier', 'quick')])
    h = _twin(ctx, m.group(6) or 'plain')
    env = {'OPUS_VERIF_ARCH_CAP': m.group(5)} if m.group(5) else {}
    rc, out, err = _run([h, 'case', m.group(1), m.group(2), m.group(3), m.group(4)], env)
    print(out)
    first = out.split('\n', 1)[0]
    if ' DIFF ' in first:
        print('VIOLATION property=C12 replay=%s (reproduced: %s)' % (obj.get('_path', '<replay>'), first[:160]))
        return 1
    print('replay: the case no longer differs')
    return 0
