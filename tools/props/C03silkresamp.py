"""C03 extension, slice SilkResamp — the SILK resampler (silk/resampler*.c) as a frozen bit-exact Lean reference,
tied sample-for-sample and state-word-for-state-word to silk_resampler_init / silk_resampler."""
import os, re, subprocess
import common

LEAN_MODULES = ['OpusProps.C03SilkResamp']
GEN = ['SilkResampRom']
SOURCES = ['silk/resampler.c', 'silk/resampler_private_up2_HQ.c', 'silk/resampler_private_IIR_FIR.c',
           'silk/resampler_private_AR2.c', 'silk/resampler_private_down_FIR.c', 'silk/resampler_rom.c',
           'silk/resampler_rom.h', 'silk/resampler_private.h', 'silk/resampler_structs.h', 'silk/macros.h',
           'silk/SigProc_FIX.h']
RULE = ('every (Fs_in, Fs_out, forEnc) of a 19 x 19 x 2 rate grid for silk_resampler_init (accepted and rejected pairs), in the '
        'library build (rejected = abort) and on a copy of resampler.c compiled without assertions (rejected = -1); inLen = 1 ms - 1 '
        'sample (assertion) on every accepted pair; call '
        'histories of 1..5 consecutive silk_resampler calls on every accepted pair with the block lengths the callers use '
        '(10 ms, 20 ms, the 1 ms minimum) and edge lengths (batch + 1 sample, non-millisecond lengths), ten signal classes '
        '(random, +/- full scale, alternating full scale, impulses, random walk, zero, tiny, square, mixed); a case is '
        'distinct by (op, kernel selected)')
NOT_COVERED = ['the 2:1 / 3:2 all-pass down-samplers silk_resampler_down2 / down2_3 (used by the encoder VAD / pitch analysis, not by '
               'silk_resampler) are not part of this slice',
               'chunk invariance is proved at whole-millisecond cuts for all kernels (chunk_invariance) and at any cut for the '
               'copy / up2_HQ kernels (chunk_invariance_fold_kernels_partial); at non-millisecond cuts the batch kernels are '
               'not chunk invariant by design (the interpolation index restarts at every call)',
               'signed overflow (UB in C) is excluded by proof for the SMLABB sum of IIR_FIR_INTERPOL and for five of the six all-pass '
               'sections of up2_HQ; for the sixth section and the AR2 recursion the model reduces mod 2^32 (what the compiled code '
               'computes) and the tie runs under UBSan',
               'the callers (dec_API.c / enc_API.c: buffer sizes handed to silk_resampler, when init is called) belong to slice SilkApi',
               'x86 / ARM SIMD variants: the resampler has none in this tree (plain C in every build)']
UNPROVED = ['absence of signed overflow in the third all-pass section of the odd phase of up2_HQ (coefficient -9994: the per-section '
            'magnitude invariant gives 2154e6 > 2^31, needs the l1 gain of the cascade) and in the AR2 recursion of down_FIR '
            '(|a0| + |a1| > 1: needs the l1 gain), for all int16 histories; the other five all-pass sections are proved '
            '(up2hq_sections_no_overflow_partial)']
ASSUMPTIONS = ['out[] has room for the number of samples stated by resampler_total, in[] holds inLen samples (the harness uses '
               'exact-size heap blocks under ASan)',
               'the state was produced by silk_resampler_init and only changed by silk_resampler (invariant Inv)']
LEVEL_TEXT = ('bit-exact executable Lean model of silk_resampler_init / silk_resampler and their four kernels with the ROM tables '
              'regenerated from the source; theorems for all inputs: init accepts exactly the documented rate pairs (30 tabulated '
              'configurations, -1 and an all-zero state otherwise), every call with inLen >= 1 ms on an invariant state is total (no '
              'out-of-bounds index, no assertion), preserves invariant and configuration, writes a sample count given in closed form '
              '(ms * Fs_out_kHz for whole milliseconds), all samples int16, all state words representable, by induction over every '
              'call history; the IIR_FIR interpolation sum is exact (no 32-bit wrap); the delay line (kernels see the input delayed by '
              'inputDelay samples, streams of consecutive calls concatenate); chunk invariance at whole-millisecond cuts for all four kernels '
              '(partition independence of the batch loops + complete index enumeration per configuration); '
              'tied by exact comparison of outputs and complete post-state over call histories under ASan/UBSan')
LEVEL_NOTE = ('trusted: Lean kernel; the harness and line protocol; the reading of the C macros (OPUS_FAST_INT64 variants) into '
              'wrap32-reducing helpers; the union sFIR modelled through the view the selected kernel uses')
TECHNIQUE = 'Lean 4 theorems over an executable model + differential correspondence (outputs and state) + implementation-only search'

REQUIRED_THEOREMS = ['OpusProps.C03SilkResamp.init_accepts_iff', 'OpusProps.C03SilkResamp.init_rejected_returns_minus_one',
                     'OpusProps.C03SilkResamp.init_table', 'OpusProps.C03SilkResamp.resampler_total',
                     'OpusProps.C03SilkResamp.history_total', 'OpusProps.C03SilkResamp.resampler_first_call_fills_one_ms',
                     'OpusProps.C03SilkResamp.out_len_formula', 'OpusProps.C03SilkResamp.out_len_whole_ms',
                     'OpusProps.C03SilkResamp.iir_fir_interpolation_exact',
                     'OpusProps.C03SilkResamp.chunk_invariance_fold_kernels_partial',
                     'OpusProps.C03SilkResamp.state_words_representable', 'OpusProps.C03SilkResamp.call_keeps_words_representable',
                     'OpusProps.C03SilkResamp.delay_line', 'OpusProps.C03SilkResamp.chunk_invariance',
                     'OpusProps.C03SilkResamp.up2hq_sections_no_overflow_partial']


def _wait_driver(secs=120):
    import time
    t0 = time.time()
    while not os.path.exists(common.driver_path()) and time.time() - t0 < secs:
        time.sleep(2)
    if not os.path.exists(common.driver_path()):
        common.lake_build(['opusmodel'])


def _h(ctx, variant):
    return ctx.harness('c03_silkresamp' + ('' if variant == 'plain' else '_' + variant), ['c03_silkresamp.c'], variant=variant)


def ties(ctx):
    hs = _h(ctx, 'san')
    hp = _h(ctx, 'plain')
    _wait_driver()
    n = 700 if ctx.quick else 25000
    specs = [('silkresamp-init', [hp, 'init']),
             ('silkresamp-init-san', [hs, 'init']),
             ('silkresamp-grid-san', [hs, 'grid', str(ctx.seed)]),
             ('silkresamp-rand-san', [hs, 'rand', str(ctx.seed), str(n)]),
             ('silkresamp-rand-plain', [hp, 'rand', str(ctx.seed + 7919), str(n)])]
    if not ctx.quick:
        specs += [('silkresamp-rand-san-%d' % k, [hs, 'rand', str(ctx.seed * 1000 + k), str(n)]) for k in range(2)]
    return _run_ties(specs)


def _run_ties(specs, tries=4):
    """The shared driver binary is relinked by other owners' runs from time to time: a tie that could not start it
    (exception) or compared nothing because it vanished is run again once the binary is back."""
    import time
    results = {}
    todo = list(specs)
    for attempt in range(tries):
        _wait_driver()
        try:
            rs = common.run_ties_parallel(todo, workers=4)
        except (OSError, ValueError):
            time.sleep(5)
            continue
        again = []
        for sp, r in zip(todo, rs):
            results[sp[0]] = r
            if r.cases == 0 and r.error and 'no cases compared' in r.error and attempt + 1 < tries:
                again.append(sp)
        todo = again
        if not todo:
            break
        time.sleep(5)
    missing = [sp for sp in specs if sp[0] not in results]
    if missing:
        for sp, r in zip(missing, common.run_ties_parallel(missing, workers=4)):
            results[sp[0]] = r
    return [results[sp[0]] for sp in specs]


def classify(ctx, tie, mm):
    # The Lean model is the frozen reference of the resampler (C03: the decoder's output at every API rate is a function
    # of the packet alone — this function): an input on which the library answers differently is a failing input.
    impl = mm.get('impl', '')
    why = 'silk_resampler_init / silk_resampler differ from the frozen bit-exact reference (samples, sample count or state)'
    if impl in ('SANITIZER', 'ABORT', 'SIGSEGV'):
        why = 'the resampler trapped (%s) on an input the reference processes in bounds' % impl
    return {'suite': tie.name, 'input': mm.get('input', ''), 'expected': (mm.get('model') or '')[:600],
            'observed': impl[:600], 'why': why}


def search(ctx):
    """Predicates on the implementation alone (no model)."""
    n = 1500 if ctx.quick else 80000
    wit, cases, samples = [], 0, []
    for variant in ('san', 'plain'):
        h = _h(ctx, variant)
        cmd = [h, 'search', str(ctx.seed + (0 if variant == 'san' else 104729)), str(n)]
        env = dict(os.environ)
        env.setdefault('ASAN_OPTIONS', 'detect_leaks=0:abort_on_error=0')
        p = subprocess.run(cmd, stdout=subprocess.PIPE, stderr=subprocess.STDOUT, text=True, env=env, timeout=3000)
        got = False
        for line in p.stdout.split('\n'):
            if line.startswith('W '):
                m = re.match(r'W (\w+) (.*) => (.*)$', line)
                if m:
                    wit.append({'suite': 'silkresamp-search-' + m.group(1), 'input': m.group(2)[:4000],
                                'expected': {'count': 'the number of samples of OpusProps.C03SilkResamp.resampler_total is written, deterministically, nothing beyond',
                                             'config': 'a call leaves the configuration fields untouched',
                                             'mscount': 'inLen * Fs_out / Fs_in samples for a whole-millisecond inLen',
                                             'chunk': 'same samples and same live state (sIIR, sFIR, delayBuf[0..inputDelay)) as two consecutive calls'}.get(m.group(1), ''),
                                'observed': m.group(3), 'why': 'resampler predicate `%s` fails on the implementation' % m.group(1)})
            elif line.startswith('S '):
                got = True
                samples.append('%s seed %d: %s' % (variant, ctx.seed, line[2:]))
                mm = re.search(r'cases=(\d+)', line)
                cases += int(mm.group(1)) if mm else 0
        if p.returncode != 0 or not got:
            tail = [l for l in p.stdout.split('\n') if 'runtime error' in l or 'ERROR: AddressSanitizer' in l
                    or l.startswith('SUMMARY') or l.startswith('O ABORT')]
            wit.append({'suite': 'silkresamp-search', 'input': 'c03_silkresamp ' + ' '.join(cmd[1:]),
                        'expected': 'the search runs to completion without sanitizer report / abort',
                        'observed': '; '.join(tail[:4]) or ('exit code %s: %s' % (p.returncode, p.stdout[-400:])),
                        'why': 'the resampler trapped (out-of-bounds access, undefined behaviour or assertion)'})
    return {'cases': cases, 'distinct': 4,
            'oracle': 'on the real library (ASan+UBSan and plain build), after a warm-up call, for random accepted rate pairs, lengths '
                      'and signals: the call writes exactly the closed-form sample count (two sentinel fills + exact-size block), '
                      'deterministically; leaves the configuration fields untouched; a whole-millisecond length gives '
                      'inLen*Fs_out/Fs_in samples; one call on a ++ b equals two consecutive calls (samples and live state: sIIR, sFIR, delayBuf[0..inputDelay)) when '
                      'the cut is at a whole millisecond',
            'samples': samples, 'witnesses': wit[:10]}
