"""C05 / slice Ranges — "no 32-bit overflow" in the integer budget arithmetic of the encoder (extension of C05)."""
import os, re, subprocess
import common

LEAN_MODULES = ['OpusProps.C05Ranges']
GEN = []
SOURCES = ['src/opus_encoder.c', 'src/opus_multistream_encoder.c', 'include/opus_defines.h']
RULE = ('trace tie: for user_bitrate_to_bitrate, the CBR sizing block (:1253-1261), the low-budget gate / max_rate, '
        'compute_equiv_rate, compute_redundancy_bytes, bytes_target / total_bitRate, max_len_sum (:1616-1681), curr_max '
        '(:1709-1716), frame_size_select and the multistream CBR clamp / per-stream curr_max the harness (which #includes '
        'src/opus_encoder.c) re-evaluates the C expressions entry by entry exactly (int64) and with every operation wrapped to '
        'int32, on every Fs x duration at the extreme settings (incl. frame_size = INT_MAX, out_data_bytes up to INT_MAX-6, 255 '
        'streams) plus seeded random in-domain inputs; the model trace must equal the exact values, the int32 evaluation must '
        'agree (w=1), and the real function (user_bitrate_to_bitrate, compute_equiv_rate, compute_redundancy_bytes, '
        'frame_size_select) must return the last entry. Search: the real encoder built with ASan+UBSan (signed overflow fatal) '
        'through every Fs x duration x channels x {AUTO, MAX, 500, 300000*ch, INT_MAX request} x VBR/CVBR/CBR with forced modes, '
        'complexity / loss extremes and out_data_bytes in {1,2,3,4,100,1275,1276,1277,4000,10^6}; forced SILK-only wideband '
        '40..120 ms frames at the highest rates the ctl admits; multistream with up to 255 channels.')
NOT_COVERED = ['compute_silk_rate_for_hybrid and the SILK maxBits arithmetic (:2052-2084), effective_max_rate (:2032): not traced; '
               'covered by the UBSan search on explored configurations only',
               'that opus_encode_native evaluates its inline expressions (cbr_bytes, max_rate, bytes_target, max_len_sum, curr_max) '
               'exactly as the harness transcribes them: those blocks are not callable; they are tied through C05\'s native replay '
               '(post-state / call arguments) and the UBSan search',
               'out_data_bytes > 4000 in the multi-frame path: outside the property\'s domain; max_len_sum overflows for '
               'out_data_bytes > INT_MAX - nb_frames and is a stack VLA of out_data_bytes bytes (observation, theorem '
               'max_len_sum_overflows, statistics search.open_findings)',
               'the multistream rate allocation is C05.ms_rate_no_overflow (not repeated here)']
ASSUMPTIONS = ['settings reach the encoder only through opus_encoder_ctl (stOk; OPUS_SET_BITRATE clamps to 500..300000*channels), '
               'frame sizes through frame_size_select']
REQUIRED_THEOREMS = ['OpusProps.C05Ranges.' + t for t in (
    'user_bitrate_fits', 'cbr_sizing_fits', 'cbr_sizing_is_model', 'gate_maxrate_fits', 'equiv_rate_fits',
    'redundancy_bytes_fits', 'bytes_target_fits', 'max_len_sum_fits', 'max_len_sum_fits_4000', 'curr_max_fits',
    'frame_size_select_fits', 'ms_budget_split_fits',
    'bytes_target_needs_ctl_clamp', 'max_len_sum_overflows')]
UNPROVED = ['Fits32 for compute_silk_rate_for_hybrid and the SILK maxBits block (no trace yet)']
LEVEL_TEXT = ('proof of absence of 32-bit overflow for the traced budget functions on the API domain (every intermediate value), '
              'partial for the encoder: the blocks listed under NOT_COVERED are searched under UBSan only')
LEVEL_NOTE = ('trusted: Lean kernel; that the traces list every intermediate the C expressions form (checked entry by entry against a '
              'C re-evaluation and, for the callable functions, against their return value)')
TECHNIQUE = 'Lean 4 range theorems over evaluation traces + differential int64/int32 re-evaluation + UBSan boundary search'
SAN_EXTRA = ['-fno-sanitize=float-cast-overflow']   # DESIGN §9 O1 (benign (int)floor(NaN) in the analysis), as in C05.py
# Observation beyond the property (coordinator decision: C05 quantifies over max_data_bytes 1..4000): with VBR (or
# OPUS_BITRATE_MAX) and a multi-frame packet, out_data_bytes near INT_MAX overflows `nb_frames + repacketize_len`
# (opus_encoder.c:1681) and any large out_data_bytes becomes a stack VLA of that size (:1683).  Recorded as statistics under
# search['open_findings'] (never a witness); the formal record is OpusProps.C05Ranges.max_len_sum_overflows.
HUGE_FINDING_ID = 'C05-multiframe-huge-out'


def _h(ctx):
    return ctx.harness('c05_ranges', ['c05_ranges.c'], variant='san', extra=SAN_EXTRA)


def ties(ctx):
    return [common.run_tie('ranges-trace', [_h(ctx), 'trace', str(ctx.seed), '400' if ctx.quick else '20000'])]


def classify(ctx, tie, mm):
    inp, impl, model = mm.get('input', ''), mm.get('impl', ''), mm.get('model', '')
    if not inp.startswith('encskel ranges '):
        return None
    if impl in ('SANITIZER', 'ABORT', 'SIGSEGV'):
        return {'suite': tie.name, 'input': inp, 'expected': model, 'observed': impl,
                'why': 'the real budget function trapped under UBSan on an in-domain input (32-bit overflow)'}
    if impl.startswith('REALDIFF'):
        return {'suite': tie.name, 'input': inp, 'expected': model, 'observed': impl,
                'why': 'the real function returns a value different from the exact evaluation of its expressions'}
    if impl.endswith('w=0') and model.endswith('w=1'):
        return {'suite': tie.name, 'input': inp, 'expected': model, 'observed': impl,
                'why': 'evaluated in int32 the C expressions wrap on an in-domain input'}
    return None


def _run(cmd):
    e = dict(os.environ)
    e.setdefault('ASAN_OPTIONS', 'detect_leaks=0:abort_on_error=0')
    e.setdefault('UBSAN_OPTIONS', 'print_stacktrace=1')
    p = subprocess.run(cmd, stdout=subprocess.PIPE, stderr=subprocess.PIPE, env=e, text=True, errors='replace')
    return p.returncode, p.stdout, p.stderr


def _scan(rc, out, err, suite, cmd):
    """A `C` line without its `R` line (process died) is a trap; returns (cases, kinds, witness or None)."""
    cases, kinds, last, open_cfg = 0, {}, None, None
    for line in out.split('\n'):
        if line.startswith('C '):
            open_cfg = line[2:]
            cases += 1
        elif line.startswith('R '):
            k = 'ret<0' if line[2:].startswith('-') else 'ok'
            kinds[k] = kinds.get(k, 0) + 1
            open_cfg = None
    if rc != 0 or open_cfg is not None:
        rep = [l for l in err.split('\n') if 'runtime error' in l or 'ERROR: AddressSanitizer' in l or re.match(r'\s+#[0-3] ', l)][:6]
        return cases, kinds, {'suite': suite, 'input': open_cfg or '(no configuration in flight)', 'command': ' '.join(cmd),
                              'expected': 'the encode call returns', 'observed': 'trap: ' + ' | '.join(rep)[:600],
                              'why': 'the real encoder trapped under ASan/UBSan (signed 32-bit overflow or memory error) in the budget arithmetic'}
    return cases, kinds, None


def search(ctx):
    h = _h(ctx)
    wit, samples = [], []
    cmd = [h, 'enc', str(ctx.seed), '0' if ctx.quick else '1']
    rc, out, err = _run(cmd)
    cases, kinds, w = _scan(rc, out, err, 'ranges-search', cmd)
    if w:
        wit.append(w)
    samples.extend([l for l in out.split('\n') if l.startswith('C ')][:3])
    res = {'cases': cases, 'distinct': len(kinds), 'oracle': 'no ASan/UBSan trap (signed-integer-overflow fatal) in the real encoder',
           'outcomes': kinds, 'samples': samples, 'witnesses': wit}
    # the callable budget functions on the trace inputs, without the model: a process that dies between an `I` line and its
    # `O` line trapped inside the real function (the tie alone would only report a broken correspondence)
    cmd = [h, 'trace', str(ctx.seed), '300' if ctx.quick else '5000']
    rc, out, err = _run(cmd)
    lines = [l for l in out.split('\n') if l.startswith('I ') or l.startswith('O ')]
    res['cases'] += sum(1 for l in lines if l.startswith('I '))
    if rc != 0 and lines and (lines[-1].startswith('I ') or lines[-1].startswith('O SANITIZER') or lines[-1].startswith('O ABORT')):
        inflight = [l for l in lines if l.startswith('I ')][-1][2:]
        rep = [l for l in err.split('\n') if 'runtime error' in l or 'ERROR: AddressSanitizer' in l or re.match(r'\s+#[0-3] ', l)][:6]
        wit.append({'suite': 'ranges-search-fn', 'input': inflight, 'command': ' '.join(cmd), 'expected': 'the function returns',
                    'observed': 'trap: ' + ' | '.join(rep)[:600],
                    'why': 'a budget function of the real encoder trapped under UBSan on an admitted argument tuple (32-bit overflow)'})
    # every generated input is inside the domain of the theorems: an int32 evaluation that wraps (w=0) is an overflow on an
    # admitted input even when the model's trace agrees entry by entry
    wrapped = [(lines[i - 1][2:], lines[i][2:]) for i in range(1, len(lines)) if lines[i].startswith('O ') and lines[i].endswith('w=0')]
    res['wrapped_in_domain'] = len(wrapped)
    for inp, obs in wrapped[:3]:
        wit.append({'suite': 'ranges-search-fn', 'input': inp, 'command': ' '.join(cmd), 'expected': 'w=1 (all intermediates fit int32)',
                    'observed': obs[:400], 'why': 'evaluated in int32 the C expressions wrap on an admitted input'})
    # out_data_bytes = 10^8 and INT_MAX (honest buffers): known to trap on the unchanged tree, see HUGE_FINDING_ID
    cmd = [h, 'enc', str(ctx.seed), '0', 'huge']
    rc, out, err = _run(cmd)
    c2, _, w = _scan(rc, out, err, 'ranges-search-huge', cmd)
    res['cases'] += c2
    if w:
        res['open_findings'] = [dict(w, id=HUGE_FINDING_ID)]
    return res
