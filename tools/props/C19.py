"""C19 — soft clipping and decoder gain post-processing obey their contracts (DESIGN.md §7.C19)."""
import json, os, re, subprocess
import common

LEAN_MODULES = ['OpusProps.C19']
EXTENSIONS = ['C19gain']   # extension slices merged into this property's check (tools/EXT_BRIEF.md)
GEN = []
SOURCES = ['src/opus_private.h', 'src/opus.c', 'src/opus_decoder.c', 'include/opus.h', 'include/opus_defines.h', 'celt/arch.h',
           'celt/mathops.h', 'celt/float_cast.h']
REQUIRED_THEOREMS = ['OpusProps.C19.' + t for t in (
    'degenerate_noop', 'channel_independent', 'passthrough_any_arith', 'passthrough',
    'bounded_sign_preserved', 'bounded', 'sign_preserved', 'ramp_term_exact', 'bounded_rounded_stdmodel',
    'bounded_rounded_excursion', 'gain_frame_condition', 'gain_transition_calls_gain0', 'gain_pass_event',
    'integer_output_saturates', 'gain_ctl_range')]
UNPROVED = ['binary32, what IS proved (bounded_rounded_stdmodel + bounded_rounded_excursion): the transcription instantiated with '
            'rounded arithmetic (each + - * / exact*(1+d), |d| <= 2^-24; m-1 exact) computes, in the excursion branch, a value '
            'whose pre-rounding last addition lies in [0, 1+(m-1)u], so a correctly rounded last addition gives <= 1, for '
            'every peak 1 < m <= 2 and every sample 0 <= x <= m; the code\'s constants satisfy the hypothesis (boost = 4.0265 '
            'units of round-off, 4 + 16u needed). NOT proved: that IEEE binary32 operations satisfy that standard model '
            '(literature; no underflow for x >= 1; for x <= 1 the result is <= x), the mirror-image negative excursion as a '
            'separate statement, and the continuation / ramp steps in rounded arithmetic',
            'bounded / sign_preserved in BINARY32 arithmetic as whole-call statements: proved over every linearly ordered '
            'field (exact arithmetic, any boost 0 <= eps < 1, whole call incl. continuation, ramp and the loop over '
            'excursions); in binary32 both are searched on the implementation (S4, strict predicates, directed boost sweep) '
            'and the binary32 instantiation of the same definitions is compared bit for bit with the code',
            'gain factor: no theorem says gainOfF32 g ~ 10^(g/5120); see NOT_COVERED']
RULE = ('exhaustive: degenerate argument combinations (N, C in -2..2, null pointers), every (N, C) with N <= 6, C <= 8 on three '
        'signal shapes over two consecutive frames, all ordered pairs of 25 special values (+-0, +-1, +-2, neighbours by one '
        'ulp, subnormals, huge) as 3- and 2-sample frames; OPUS_SET_GAIN accept/reject at the int16 boundary and the gain '
        'factor for 2051 (thorough: all 65536) gains. stratified/random (seeded): nine input families of the property (noise '
        'and sines at amplitudes 0..1e6, isolated peaks, runs above range without zero crossing, sign changes at the frame '
        'edges, special values, random finite bit patterns, slow ramps through the clipping point, peak-first frames that hit '
        'the frame-start special case) with N in 1..5760, C in 1..8, one to four consecutive frames sharing the memory, '
        'occasionally a carried-over non-zero coefficient and non-finite samples. A case is distinct by its '
        '(operation, outcome class) pair; classes: ignored / same / same-carry / clipped / clipped-carry.')
NOT_COVERED = ['the VALUE of the gain factor: gain_frame_condition says the gain touches only the gain pass, no theorem says the pass '
               'multiplies by 10^(g/5120). The tie `softclip-gain` compares the model\'s gainOfF32 g with celt_exp2(6.48814081e-4f*g) '
               'as bit patterns, both evaluated OUTSIDE the library (harness TU / Lean Float); what binds the library is S4: '
               'celt_exp2(...) vs 10^(g/5120) in double for all 65536 gains within the calibrated 4e-6, and the library\'s float '
               'output with gain g == gain-0 output * that factor, bit for bit (one binary32 multiplication per sample)',
               'pass-through for binary32: passthrough_any_arith needs `Pass v` per sample, which Lean cannot derive for Float32 '
               '(opaque); for floats the clause rests on the bit-exact tie and the strict S4 predicate',
               '|out| <= 1 and sign preservation in binary32 arithmetic are not theorems (Lean has no IEEE-754 error analysis); '
               'they are theorems over every ordered field and are searched on the implementation in binary32',
               'the Lean `Float32` operations used by the executable instantiation are opaque to the kernel (they run the '
               'host FPU); that instantiation is compared bit for bit with the compiled C on every run, the theorems marked '
               '"any arithmetic" apply to it, the field theorems do not',
               'NaN / infinite samples are outside the property; they only exercise the comparison branches in the tie',
               'timing ("nothing else changes") of the gain is not observable; sample count and final range are']
ASSUMPTIONS = ['buffers have exactly the declared sizes (N*C samples, C memories); the harness uses exact-size heap blocks '
               'under ASan', 'x86-64 SSE2 build, default rounding mode, no -ffast-math, no FMA contraction in src/opus.c '
               '(the bit-for-bit tie would show a contraction)']
TRUSTED = ['Lean `Float32` (compiled to C float) for the executable instantiation only; the kernel-checked theorems never '
           'mention it']

ENV = {'ASAN_OPTIONS': 'detect_leaks=0:abort_on_error=0', 'UBSAN_OPTIONS': 'print_stacktrace=1'}
CALIB = json.load(open(os.path.join(os.path.dirname(os.path.abspath(__file__)), 'C19_calib.json')))


def _harness(ctx):
    return ctx.harness('c19_softclip', ['c19_softclip.c'], variant='san')


def ties(ctx):
    h = _harness(ctx)
    q = ctx.quick
    out = []
    out.append(common.run_tie('softclip-edge', [h, 'edge']))
    out.append(common.run_tie('softclip-rand', [h, 'rand', str(ctx.seed), '30000' if q else '600000']))
    out.append(common.run_tie('softclip-gain', [h, 'gain', '0' if q else '1']))
    return out


def _floats(hexs):
    import struct
    b = bytes.fromhex(hexs[1:]) if hexs.startswith('x') else b''
    return list(struct.unpack('<%df' % (len(b) // 4), b[:len(b) // 4 * 4]))


def classify(ctx, tie, mm):
    """A disagreement between the binary32 instantiation of the model and opus_pcm_soft_clip: evaluate the property's
    own predicates on the implementation's answer; if one fails it is a witness, otherwise the correspondence is
    broken without a failing input (e.g. a re-association that stays inside the contract)."""
    toks = mm.get('input', '').split(' ')
    impl = mm.get('impl', '')
    if impl in ('SANITIZER', 'ABORT', 'SIGSEGV'):
        return {'suite': tie.name, 'input': mm.get('input', ''), 'expected': mm.get('model'), 'observed': impl,
                'why': 'opus_pcm_soft_clip trapped (%s) on this input' % impl, 'sanitizer_report': mm.get('sanitizer_report')}
    if len(toks) >= 3 and toks[1] in ('gainctl',):
        return {'suite': tie.name, 'input': mm.get('input', ''), 'expected': mm.get('model'), 'observed': impl,
                'why': 'OPUS_SET_GAIN must accept exactly -32768..32767 and store the value (gain_ctl_range)'}
    if len(toks) >= 7 and toks[1] == 'clip':
        try:
            N, C, flags = int(toks[2]), int(toks[3]), int(toks[4])
            mem0, x0 = _floats(toks[5]), _floats(toks[6])
            it = impl.split(' ')
            y, mem1 = _floats(it[1]), _floats(it[2])
        except Exception:
            return None
        why = None
        fin = all(abs(v) < 3.0e38 and v == v for v in x0)
        if N < 1 or C < 1 or flags:
            if y != x0 or mem1 != mem0:
                why = 'degenerate arguments (C<1, N<1, null pointer) must be ignored, but a buffer changed'
        elif fin and len(y) == len(x0):
            if any(not (-1.0 <= v <= 1.0) for v in y):
                why = 'output sample outside [-1, 1]'
            elif any((a > 0 and b < 0) or (a < 0 and b > 0) for a, b in zip(x0, y)):
                why = 'a sample changed sign'
            elif all(abs(v) <= 1.0 for v in x0) and all(m == 0 for m in mem0) and (toks[6] != it[1] or any(m != 0 for m in mem1)):
                why = 'a signal already inside [-1, 1] with cleared memory must be left bit-for-bit untouched'
        if why:
            return {'suite': tie.name, 'input': mm.get('input', ''), 'expected': mm.get('model'), 'observed': impl, 'why': why}
    return None


def search(ctx):
    """Property predicates evaluated on the implementation only."""
    h = _harness(ctx)
    n = 40000 if ctx.quick else 1200000
    ns = 60 if ctx.quick else 1500
    env = dict(os.environ)
    env.update(ENV)
    cmds = [('search', [h, 'search', str(ctx.seed), str(n)]),
            ('gainsearch', [h, 'gainsearch', str(ctx.seed), str(ns), str(CALIB['gain_factor_rel_tol'])])]
    wit, cases, stats, samples = [], 0, {}, []
    # ---- corpus of minimised past failures first (they must pass now): the soft-clip calls that exposed the
    # start-of-frame ramp sign flip, and mode-switching streams that exposed the gain applied twice
    cpath = os.path.join(common.VERIF, 'corpus', 'C19', 'softclip_lines.txt')
    clines = [l for l in open(cpath).read().split('\n') if l.startswith('softclip clip ')] if os.path.exists(cpath) else []
    if clines:
        rc, out = common.sh([h, 'stdin'], input='\n'.join(clines) + '\n', env=ENV)
        preds = [l[2:] for l in out.split('\n') if l.startswith('P ')]
        for l, pr in zip(clines, preds):
            cases += 1
            if not pr.startswith('kind=0'):
                parts = pr.split(' ', 1)[1].split(' | ') if ' ' in pr else [pr, '']
                wit.append({'suite': 'softclip-corpus', 'input': l, 'expected': parts[0], 'observed': parts[-1],
                            'why': 'a minimised past failure of the soft clipper fails again (bounded / sign kept / pass-through)'})
        if rc != 0 or len(preds) != len(clines):
            wit.append({'suite': 'softclip-corpus', 'input': 'c19_softclip stdin < corpus/C19/softclip_lines.txt',
                        'expected': '%d calls evaluated' % len(clines), 'observed': 'exit %s, %d evaluated: %s' % (rc, len(preds), out[-300:]),
                        'why': 'the corpus run trapped or did not complete'})
        stats['corpus.softclip_calls'] = len(preds)
    cmds.append(('boost', [h, 'boost', '0' if ctx.quick else '1']))
    cmds.insert(0, ('gaincorpus', [h, 'gaincorpus', str(CALIB['gain_factor_rel_tol'])]))
    procs = [(name, cmd, subprocess.Popen(cmd, stdout=subprocess.PIPE, stderr=subprocess.STDOUT, text=True, env=env))
             for name, cmd in cmds]
    for name, cmd, p in procs:
        try:
            out, _ = p.communicate(timeout=3000)
        except subprocess.TimeoutExpired:
            p.kill()
            out, _ = p.communicate()
            out += '\nTIMEOUT'
        got = False
        for line in out.split('\n'):
            if line.startswith('W '):
                parts = line[2:].split(' | ')
                if len(parts) >= 5:
                    wit.append({'suite': 'softclip-search-' + parts[0], 'input': parts[1], 'expected': parts[2],
                                'observed': parts[3], 'why': parts[4]})
            elif line.startswith('STAT '):
                got = True
                samples.append('%s seed %d: %s' % (name, ctx.seed, line[5:]))
                for kv in line[5:].split(' '):
                    k, _, v = kv.partition('=')
                    try:
                        stats[name + '.' + k] = float(v)
                    except ValueError:
                        stats[name + '.' + k] = v
                m = re.search(r'cases=(\d+)', line)
                if m:
                    cases += int(m.group(1))
        if p.returncode != 0 or not got:
            tail = [l for l in out.split('\n') if 'runtime error' in l or 'ERROR: AddressSanitizer' in l
                    or l.startswith('SUMMARY') or l.startswith('O ABORT') or 'TIMEOUT' in l]
            wit.append({'suite': 'softclip-search-' + name, 'input': 'c19_softclip ' + ' '.join(cmd[1:]),
                        'expected': 'the search runs to completion without sanitizer report / abort',
                        'observed': '; '.join(tail[:4]) or ('exit code %s: %s' % (p.returncode, out[-400:])),
                        'why': 'the implementation trapped (out-of-bounds access, undefined behaviour or assertion)'})
    return {'cases': cases, 'distinct': 8,
            'oracle': 'first the corpus of minimised past failures (corpus/C19: the soft-clip calls of the former ramp sign '
                      'flip incl. 600-sample ramps; 12 mode-switching streams alternating SILK-only / CELT-only packets on every '
                      'frame with fixed gains — the former double-gain defect), then on the real library (ASan+UBSan build), zero-initialised memory carried over consecutive frames: every '
                      'output sample in [-1, 1]; no sample changes sign, however small (strict); all-in-range input with cleared memory is returned bit for bit with '
                      'memory 0; directed sweep for |out| > 1 where the 2^-22 boost has least margin (two-sample frames {x, maxval}, maxval at '
                      '/ below 2, just above 1, random in (1,2], x over the floats below maxval and around the vertex); the C-channel call equals C single-channel calls (samples and memory, bit for bit); degenerate '
                      'arguments touch nothing. Gain: factor vs 10^(g/5120) for all 65536 gains within the calibrated '
                      'tolerance; twin decoders with gain g / 0 on the same packets (incl. lost frames, FEC, and every third '
                      'stream alternating between packets of a SILK-only and a CELT-only encoder so that the decoder '
                      'cross-fades between modes): equal sample '
                      'counts and final ranges, float output == gain-0 output * factor (one binary32 multiplication, bit for '
                      'bit), int16 output == saturate(round(32768 * softclip(float))), never a wrapped value',
            'stats': stats, 'samples': samples, 'witnesses': wit[:10]}


def replay(ctx, obj):
    """Re-run the recorded call(s) on the implementation (property predicates, `P` line) and on the model."""
    h = _harness(ctx)
    items = [obj] + list(obj.get('other_witnesses', []))
    lines = [w.get('input', '') for w in items if w.get('input', '').startswith('softclip clip ')]
    other = [w.get('input', '') for w in items if not w.get('input', '').startswith('softclip ')]
    if not lines:
        print('replay: %s; re-running the whole check' % ('input is a search stream: ' + other[0][:120] if other else obj.get('kind')))
        import sys
        os.execv(sys.executable, [sys.executable, os.path.join(common.VERIF, 'tools', 'check.py'), ctx.prop,
                                  '--tier', obj.get('tier', 'quick')])
    common.lake_build(['opusmodel'])
    rc, out = common.sh([h, 'stdin'], input='\n'.join(lines) + '\n', env=ENV)
    impl = [l[2:] for l in out.split('\n') if l.startswith('O ')]
    preds = [l[2:] for l in out.split('\n') if l.startswith('P ')]
    model = common.model_eval(lines)
    bad = 0
    for i, l in enumerate(lines):
        a = impl[i] if i < len(impl) else '(no answer)'
        print('input: %s\n  impl:  %s\n  model: %s' % (l[:400], a[:400], (model[i] if i < len(model) else '')[:400]))
        if i >= len(impl) or a != model[i]:
            print('  -> implementation and model differ')
            bad += 1
    for p in preds:
        print('  predicates on the implementation: ' + p)
        if not p.startswith('kind=0'):
            bad += 1
    if bad:
        print('VIOLATION property=C19 replay reproduced (%d finding(s) on the recorded input)' % bad)
        return 1
    print('replay: the recorded input(s) no longer fail')
    return 0


LEVEL_TEXT = ('proof: opus_pcm_soft_clip is transcribed once, generically over its sample operations; kernel-checked for EVERY '
              'instantiation (so also the binary32 one that is compared bit for bit with the compiled C): degenerate arguments '
              'are ignored, the C-channel call is exactly C single-channel calls on the de-interleaved data with that '
              'channel\'s memory, in-range input with cleared memory passes through unchanged (given the four comparisons the '
              'code makes on an in-range sample); over every linearly ordered field and every boost 0 <= eps < 1, for the whole '
              'call and any channel count: every output sample lies in [-1, 1], no sample changes sign (strict), the carried '
              'coefficients stay within (1+eps)/4; with rounded arithmetic in the standard model the excursion branch of the '
              'same transcription stays <= 1 thanks to the 2^-22 boost. Gain: on C01\'s decoder skeleton (tied, gain pass = event '
              'G) opus_decode_native run with two gains gives the same return value, packet offset, final state except '
              'decode_gain, oracle-call counter and event log up to gain-pass events; transition calls run with gain 0; ctl '
              'range; the 16-bit conversion after the gain never wraps (C13). Not theorems: binary32 rounding beyond the '
              'standard-model excursion result, and the value of the gain factor (searched, S4).')
LEVEL_NOTE = ('trusted: Lean kernel; Lean Float32 = host binary32 for the executable model only; correspondence harness and line '
              'protocol. Not proved: anything about rounded arithmetic (bounded / sign_preserved hold over ordered fields).')
TECHNIQUE = 'Lean 4 theorems over a generic (any-arithmetic) transcription + ordered-field instance; bit-exact Float32 differential run'
