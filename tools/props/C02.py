"""C02 — every encoded packet is valid and decodes in lock-step with the encoder (DESIGN.md §7.C02)."""
import os, re
import common
from props import C05 as _c05

LEAN_MODULES = ['OpusProps.C02', 'OpusProps.EndToEnd']   # EndToEnd: composition with the C06 parser, C07 pad/unpad and the C01 decoder skeleton
EXTENSIONS = ['C02wf']   # extension slices merged into this property's check (tools/EXT_BRIEF.md)
GEN = ['EncTables']
SOURCES = _c05.SOURCES + ['src/opus_decoder.c', 'celt/celt_decoder.c', 'silk/dec_API.c', 'celt/entdec.c',
                           'src/opus_multistream_decoder.c', 'src/opus_projection_decoder.c']
RULE = ('lock-step search on the real library: random (Fs, channels, application) encoders with random ctl histories '
        '(bit-rate incl. AUTO/MAX, VBR/CVBR, complexity, bandwidth, max bandwidth, forced channels, forced mode, FEC, loss, DTX, '
        'LSB depth, prediction, phase inversion, frame duration 2.5-120 ms, reset), int16/int24/float input, signals silence / '
        'sine / noise / full-scale square / quiet noise / speech-like bursts / NaN+Inf / 1e9, max_data_bytes 1..1500 with emphasis '
        'on 1..12; every packet is parsed and decoded by 10 decoders (5 rates x mono/stereo); multistream and projection '
        'encoders with their decoders, incl. max_data_bytes 1..600 exhaustively for 7 layouts at high rates; multi-frame VBR '
        'packets with sub-frames >= 253 bytes nearly filling max_data_bytes (+-8 sweep around a probe packet); SILK-only NB/MB/WB at '
        'low rates with forced SILK<->CELT and bandwidth switches and max_data_bytes swept around / below the previous packet size '
        '(redundancy signalling under tight budgets). Plus the skeleton replay of C05 (same harness) for the packet structure. A case is '
        'distinct by (mode, bandwidth, duration, code, outcome).')
NOT_COVERED = ['that encoder and decoder payload symbol sequences mirror each other (SILK/CELT symbol layers on the encoder side '
               'depend on float decisions): final-range equality is only searched on the implementation, never proved',
               'the "frozen RFC 6716 reference decoder" clause: no such decoder or test vectors exist in the sandbox; this '
               "tree's decoder is the only decoder used (co-drift of encoder and decoder is visible only through the layers that "
               'have a Lean model: framing C06, range coder C08)',
               'multistream / projection packet structure (self-delimited concatenation) is covered by the search and by C10, '
               'not by a theorem here']
ASSUMPTIONS = _c05.ASSUMPTIONS
TRUSTED = _c05.TRUSTED
REQUIRED_THEOREMS = ['OpusProps.C02.' + t for t in ('genToc_roundtrip', 'lowBudget_valid', 'no_internal_error',
                                                    'repack_output_parses', 'encode_wellformed', 'redundancy_mirror_silk',
                                                    'redundancy_mirror_hybrid_cbr', 'hybrid_redundancy_parse')]
REQUIRED_THEOREMS += ['OpusProps.EndToEnd.' + t for t in ('encode_decode_duration', 'encode_decode_duration_padded',
                                                           'encode_decode_duration_unpadded')]
UNPROVED = [
            'redundancy_mirror for hybrid mode with VBR on: NOT proved. The mirror is proved for SILK-only (redundancy_mirror_silk) '
            'and for hybrid with VBR off (redundancy_mirror_hybrid_cbr), both on the payload length the frame skeleton itself emits and '
            'with no decoder-side hypothesis; in hybrid VBR the frame length depends on what celt_encode_with_ec returns, and the '
            'decoder gate needs its min_allowed (celt_encoder.c:2303-2318: ec_tell_before + 37 <= 8*(ret + redundancy_bytes)) and '
            'ec_tell <= 8*ret, which are not contracts of the skeleton; hybrid_redundancy_parse is only the decoder-side evaluation',
            'lowBudget_valid for the CBR-padded ToC-only packet is covered by encode_wellformed through the repacketiser '
            'contract; the statement proved by exhaustive kernel evaluation is about the unpadded packet']


def ties(ctx):
    q, s = ctx.quick, ctx.seed
    hs = _c05._h(ctx, 'san')
    out = []
    out.append(common.run_tie('encskel-rand', [hs, 'rand', str(s + 500), '700' if q else '8000']))
    out.append(common.run_tie('encskel-gentoc', [hs, 'gentoc']))
    out.append(common.run_tie('encskel-fill', [hs, 'fill', str(s + 500), '0' if q else '1']))
    out.append(common.run_tie('encskel-redsw', [_c05._h(ctx, 'plain'), 'redsw', str(s + 500), '250' if q else '3000']))
    if not q:
        out.append(common.run_tie('encskel-sweep', [hs, 'sweep', str(s + 500), '1']))
        hf = _c05._h(ctx, 'fuzzing')
        out.append(common.run_tie('encskel-fuzzing', [hf, 'rand', str(s + 577), '6000']))
    return out


def check_case(inp, impl):
    """C02 on what the implementation returned for one recorded opus_encode_native call."""
    if impl in ('SANITIZER', 'ABORT', 'SIGSEGV'):
        return ('encode call returns a packet', 'the encode call trapped (%s)' % impl)
    i, o = _c05._kv(inp), _c05._kv(impl)
    try:
        st = [int(x) for x in i['st'].split(',')]
        frame, out, ret = int(i['frame']), int(i['out']), int(o['ret'])
    except (KeyError, ValueError):
        return None
    fs = st[0]
    if frame <= 0 or out <= 0 or not _c05.LEGAL(fs, frame):
        return None
    if ret < 0:
        if ret == -2 and min(1276, out) == 1 and fs == frame * 10:
            return None
        return ('success', 'encode call with valid arguments failed with %d (%s)' % (
            ret, {-1: 'BAD_ARG', -2: 'BUFFER_TOO_SMALL', -3: 'INTERNAL_ERROR'}.get(ret, '?')))
    lens = o.get('lens', '')
    if lens.startswith('UNPARSEABLE'):
        return ('a well-formed packet', 'the returned packet does not parse (%s)' % lens)
    ls = [int(x) for x in lens.split(',')] if lens not in ('', '-') else []
    cfg = int(o.get('cfg', '0'))
    if len(ls) * _c05._spf(cfg, fs) != frame:
        return ('packet duration %d samples' % frame, 'packet announces %d x %d samples' % (len(ls), _c05._spf(cfg, fs)))
    return None


def classify(ctx, tie, mm):
    bad = check_case(mm.get('input', ''), mm.get('impl', ''))
    if not bad:
        return None
    return {'suite': tie.name, 'input': mm.get('input', ''), 'expected': bad[0], 'observed': mm.get('impl', '')[:400],
            'why': bad[1], 'model': mm.get('model', '')[:400], 'sanitizer_report': mm.get('sanitizer_report')}


def _runs(ctx):
    q, s = ctx.quick, ctx.seed
    hs = _c05._h(ctx, 'san', 'c02_lockstep')
    hp = _c05._h(ctx, 'plain', 'c02_lockstep')
    runs = [('lockstep-san', [hs, 'lock', str(s), '400' if q else '6000']),
            ('lockstep', [hp, 'lock', str(s + 100), '2500' if q else '40000']),
            ('lockstep-fill', [hp, 'fill', str(s), '0' if q else '1']),
            ('lockstep-redsw', [hp, 'redsw', str(s), '300' if q else '4000']),
            ('lockstep-ms', [hp, 'ms', str(s), '500' if q else '8000']),
            ('lockstep-mssweep', [hp, 'mssweep', str(s), '0' if q else '1']),
            ('lockstep-ms-san', [hs, 'ms', str(s + 100), '100' if q else '1500'])]
    if not q:
        hf = _c05._h(ctx, 'fuzzing', 'c02_lockstep')
        runs.append(('lockstep-fuzzing', [hf, 'lock', str(s + 200), '20000']))
    return runs


def _scan(out, suite, cmd, wit, stats):
    for line in out.split('\n'):
        if line.startswith('V '):
            parts = line[2:].split(' | ')
            if len(parts) >= 4 and len(wit) < 10:
                wit.append({'suite': suite, 'input': parts[3], 'command': cmd, 'expected': parts[1], 'observed': parts[2],
                            'why': 'C02 predicate `%s` fails on the implementation' % parts[0],
                            'history': parts[4] if len(parts) > 4 else ''})
        m = re.match(r'# lock cases=(\d+) decodes=(\d+) violations=(\d+)', line)
        if m:
            stats['cases'] += int(m.group(1)); stats['decodes'] += int(m.group(2))
        if line.startswith('# dist '):
            stats.setdefault('dist', []).append('%s: %s' % (suite, line[7:]))


def search(ctx):
    wit, stats = [], {'cases': 0, 'decodes': 0}
    env = {'ASAN_OPTIONS': 'detect_leaks=0:abort_on_error=0', 'UBSAN_OPTIONS': 'print_stacktrace=1'}
    for suite, cmd in _runs(ctx):
        rc, out = common.sh(cmd, timeout=3000, env=env)
        c = ' '.join(['c02_lockstep'] + cmd[1:])
        _scan(out, suite, c, wit, stats)
        if rc not in (0, 9) and not wit:
            tail = [l for l in out.split('\n') if 'runtime error' in l or 'ERROR: AddressSanitizer' in l or l.startswith('SUMMARY')
                    or l.startswith('O ')]
            wit.append({'suite': suite, 'input': ' '.join(cmd[1:]), 'command': c, 'expected': 'encode/decode calls return',
                        'observed': '; '.join(tail[:4]) or ('exit code %d: %s' % (rc, out[-300:])),
                        'why': 'the codec trapped (sanitizer report, assertion or crash) during the lock-step search'})
    return {'cases': stats['cases'], 'distinct': 40, 'decodes': stats['decodes'], 'distribution': stats.get('dist', [])[:4],
            'oracle': 'on the real library: encode succeeds for valid arguments (BUFFER_TOO_SMALL only for 1 byte and 100 ms; '
                      'multistream: only below 2*streams-1 (+streams at 100 ms)); 1 <= ret <= max_data_bytes; opus_packet_parse '
                      'accepts the packet; opus_packet_get_nb_samples == frame_size; each of 10 decoders (8/12/16/24/48 kHz x '
                      'mono/stereo) returns frame_size*Fs_dec/Fs samples and OPUS_GET_FINAL_RANGE equal to the encoder\'s; same '
                      'for multistream / projection with their decoders; ASan/UBSan build for part of the runs',
            'samples': ['%s -> cases=%d decodes=%d' % (' '.join(c[1:]), stats['cases'], stats['decodes']) for _, c in _runs(ctx)][:2],
            'witnesses': wit[:10]}


def replay(ctx, obj):
    cmd = obj.get('command') or ''
    toks = cmd.split(' ')
    if len(toks) < 2:
        print('replay: no harness command recorded; re-running the whole check')
        import sys
        os.execv(sys.executable, [sys.executable, os.path.join(common.VERIF, 'tools', 'check.py'), ctx.prop, '--tier', obj.get('tier', 'quick')])
    if toks[0] == 'c05_encsize':
        return _c05.replay(ctx, obj)
    variant = 'san' if 'san' in obj.get('suite', '') else ('fuzzing' if 'fuzzing' in obj.get('suite', '') else 'plain')
    h = _c05._h(ctx, variant, 'c02_lockstep')
    rc, out = common.sh([h] + toks[1:], timeout=3000, env={'ASAN_OPTIONS': 'detect_leaks=0:abort_on_error=0'})
    wit, stats = [], {'cases': 0, 'decodes': 0}
    _scan(out, obj.get('suite', 'replay'), cmd, wit, stats)
    hit = [w for w in wit if w['input'] == obj.get('input')] or wit
    if hit or rc not in (0, 9):
        w = hit[0] if hit else {'input': cmd, 'expected': 'run completes', 'observed': 'exit %d' % rc, 'why': 'trap'}
        print('input: %s\n  expected: %s\n  observed: %s\n  why: %s' % (w['input'], w['expected'], w['observed'], w['why']))
        print('VIOLATION property=C02 replay reproduced')
        return 1
    print('replay: %d encodes / %d decodes re-run, every C02 predicate holds' % (stats['cases'], stats['decodes']))
    return 0


LEVEL_TEXT = ('partial: kernel-checked for the encoder skeleton (all oracle behaviours within the contracts, all settings, frame '
              'sizes and buffer sizes): gen_toc round-trips through the packet helpers for every legal (mode, duration, bandwidth, '
              'channels) at every rate; the low-budget ToC-only packet parses with the submitted duration and one byte is refused '
              'exactly for 100 ms; every success return has 1 <= ret <= out_data_bytes and, for any frame contents, header ++ frames ++ padding '
              'parses (C06 parser) to exactly those frames, count x samples_per_frame = frame_size, consuming ret bytes; no INTERNAL_ERROR site and no assertion of the skeleton is reachable. Lock-step of '
              'the payload (final range equality, sample counts at every decoder rate) is searched on the implementation only.')
LEVEL_NOTE = _c05.LEVEL_NOTE + ' No RFC reference decoder is available offline.'
TECHNIQUE = 'Lean 4 theorems over the encoder skeleton + differential replay + encode/decode lock-step search on the real library'
