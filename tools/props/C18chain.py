"""C18 extension, slice Chain — the state SILK carries from frame to frame, checked on the implementation:
 (1) rate-switch / reset interpolation: crafted legal SILK-only packets through the real opus_decode; every LSF vector handed to
     silk_NLSF2A (both half-frame filters) must be ordered with the minimum spacing of the codebook in force, filters stable;
 (2) encoder/decoder chain agreement: real encoder -> real decoder, after every packet the encoder's running gain index,
     previous quantised NLSF vector, previous lag and signal type equal the decoder's.
Lean: the first frame after a rate change / reset never interpolates (small model of decoder_set_fs's flag + decode_parameters.c:57-75)."""
import os, re, subprocess
from concurrent.futures import ThreadPoolExecutor
import common

LEAN_MODULES = ['OpusProps.C18Chain']
GEN = []
SOURCES = ['silk/decode_parameters.c', 'silk/decoder_set_fs.c', 'silk/init_decoder.c', 'silk/decode_frame.c', 'silk/dec_API.c',
           'silk/NLSF_decode.c', 'silk/NLSF2A.c', 'silk/NLSF_stabilize.c', 'silk/gain_quant.c', 'silk/float/encode_frame_FLP.c',
           'silk/fixed/encode_frame_FIX.c', 'silk/float/process_gains_FLP.c', 'silk/process_NLSFs.c', 'silk/control_codec.c',
           'silk/enc_API.c', 'silk/encode_indices.c', 'silk/decode_indices.c', 'silk/structs.h', 'silk/float/structs_FLP.h']
RULE = ('switch: SILK-only packets synthesised with the range encoder + silk_encode_indices (zero excitation), histories of 1-2 good '
        'frames at one internal rate -> optional lost packet -> frame at another rate (all 36 ordered pairs of 8/12/16 kHz x 10/20 ms, '
        'mono or stereo) with NLSFInterpCoef_Q2 0..4 over a grid of first-stage indices and 7 residual patterns (zero, +-10 extremes, '
        'alternating, random) -> one more frame; plus random histories of 3..7 steps with OPUS_RESET_STATE, losses, mono<->stereo, '
        'mid-only -> side, rate and frame-size changes. gain: forced SILK-only encoder streams, CBR (60%) / constrained VBR / VBR at '
        '6..24 kb/s (+4 stereo), NB/MB/WB, 10/20/40/60 ms, complexity 0..10 (half at 10), FEC on/off, mono / stereo, 16 / 48 kHz API rate, '
        'four signal classes (35 ms level steps, random level jumps, speech-like bursts with silence, wide dynamic range), 15% with a '
        'bandwidth switch half way; a case is a history / a packet')
NOT_COVERED = ['the dequantised gains of the last frame are compared through the running index (the dequantised gain of the last sub-frame '
               'is a pure function of LastGainIndex); sEncCtrl.Gains lives on the stack of silk_encode_frame and is not read',
               'packets with a frame of <= 1 byte (DTX, or a frame the encoder dropped because it did not fit the budget) and the side '
               'channel of packets whose last frame is mid-only are not compared (counted in the summary line); no packet loss in the gain family',
               'the Lean model covers the flag logic only (that the decoded vector is ordered is C18 nlsf_decode_ordered); excitation is zero in the crafted packets']
ASSUMPTIONS = ['the harness replaces the library\'s silk_decode_parameters by the same source file compiled with silk_NLSF2A wrapped '
               '(#include "silk/decode_parameters.c"), and reads the SILK states inside OpusEncoder / OpusDecoder through the offsets '
               'stored in their first two ints; the decoder super struct of dec_API.c is mirrored in the harness']
LEVEL_TEXT = ('implementation-only search with C18 clauses as predicates (ordered LSFs incl. interpolated ones, stable filters; encoder-side '
              'quantised values = decoder-side reconstruction along the gain / NLSF / lag chains) + kernel-checked theorems on a small model: '
              'after silk_decoder_set_fs to a different rate or silk_reset_decoder the first-half LSF vector is the decoded vector for every '
              'stale prevNLSF and every NLSFInterpCoef_Q2')
LEVEL_NOTE = 'trusted: Lean kernel; the harness; the transcription of the four flag assignments cited in OpusProofs/SilkChain.lean'
TECHNIQUE = 'implementation-only search (crafted bitstreams, encoder/decoder state comparison) + Lean 4 theorems over a small model'
REQUIRED_THEOREMS = ['OpusProps.C18Chain.' + t for t in ('rate_switch_disables_interpolation', 'reset_disables_interpolation',
                                                          'good_frame_installs_current', 'coef4_no_interpolation', 'same_rate_untouched')]
UNPROVED = []

EXPECT = {'switch': 'every LSF vector handed to silk_NLSF2A lies in range and is ordered with the minimum spacing (deltaMin_Q15) of the '
                    'codebook in force - for both half-frame filters -, both filters pass silk_LPC_inverse_pred_gain, opus_decode accepts the packet',
          'gain': 'after every packet the encoder\'s sShape.LastGainIndex / prev_NLSFq_Q15 / prevLag / prevSignalType equal the decoder\'s '
                  'LastGainIndex / prevNLSF_Q15 / lagPrev / prevSignalType (quantising on the encoder side gives the values the decoder reconstructs)'}
WHY = {'switch': 'C18: line-spectral frequencies (including interpolated ones) come out strictly ordered / filters stable - fails on the real decoder',
       'gain': 'C18: quantising parameters on the encoder side and dequantising them gives the same values the decoder reconstructs - the '
               'encoder\'s chain state differs from the decoder\'s'}


def _h(ctx):
    return ctx.harness('c18_chain', ['c18_chain.c'], variant='plain')


def ties(ctx):
    return []


def classify(ctx, tie, mm):
    return None


def _jobs(ctx):
    s = ctx.seed
    if ctx.quick:
        return [('switch', [str(s), '4000']), ('gain', [str(s), '170']), ('gain', [str(s + 1000003), '170']), ('gain', [str(s + 2000003), '170'])]
    return [('switch', [str(s), '400000', 'full']), ('gain', [str(s), '2500']), ('gain', [str(s + 1000003), '2500']),
            ('gain', [str(s + 2000003), '2500']), ('gain', [str(s + 3000017), '2500'])]


def search(ctx):
    h = _h(ctx)
    wit, samples, cases = [], [], 0

    def run(job):
        fam, args = job
        p = subprocess.run([h, fam] + args, stdout=subprocess.PIPE, stderr=subprocess.STDOUT, text=True, timeout=3000)
        return fam, args, p

    with ThreadPoolExecutor(max_workers=4) as ex:
        results = list(ex.map(run, _jobs(ctx)))
    for fam, args, p in results:
        got = False
        for line in p.stdout.split('\n'):
            m = re.match(r'W (\w+) (.*?) => (.*)$', line)
            if m:
                wit.append({'suite': 'chain-' + m.group(1), 'input': 'c18_chain ' + m.group(2)[:3000], 'expected': EXPECT.get(m.group(1), ''),
                            'observed': m.group(3)[:1500], 'why': WHY.get(m.group(1), '')})
            elif line.startswith('S '):
                got = True
                samples.append('%s %s: %s' % (fam, ' '.join(args), line[2:]))
                mm = re.search(r'cases=(\d+)', line)
                cases += int(mm.group(1)) if mm else 0
        if p.returncode != 0 or not got:
            wit.append({'suite': 'chain-' + fam, 'input': 'c18_chain %s %s' % (fam, ' '.join(args)),
                        'expected': 'the search runs to completion', 'observed': 'exit code %s: %s' % (p.returncode, p.stdout[-500:]),
                        'why': 'the SILK decoder / encoder trapped (assertion or crash) on a legal crafted bitstream or a plain encode'})
    wit.sort(key=lambda w: w['suite'])
    # keep witnesses of both families
    keep = [w for w in wit if w['suite'] == 'chain-switch'][:4] + [w for w in wit if w['suite'] == 'chain-gain'][:4]
    return {'cases': cases, 'distinct': 2,
            'oracle': 'switch: ' + EXPECT['switch'] + '; gain: ' + EXPECT['gain'] + ' (replay: scratch harness `c18_chain replay <packets>` / `c18_chain greplay <cfg>`)',
            'samples': samples, 'witnesses': keep}


def replay(ctx, obj):
    h = _h(ctx)
    rc = 0
    for w in obj.get('witnesses', []):
        inp = w.get('input', '')
        if not inp.startswith('c18_chain '):
            continue
        args = inp.split(' [')[0].split()[1:]
        p = subprocess.run([h] + args, stdout=subprocess.PIPE, stderr=subprocess.STDOUT, text=True)
        print(p.stdout[-3000:])
        rc |= p.returncode
    return rc
