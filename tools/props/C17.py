"""C17 — PVQ, Laplace and table-driven symbol codes are exact, prefix-free bijections (DESIGN.md §7.C17)."""
import concurrent.futures, os, re, shutil, time
import common

LEAN_MODULES = ['OpusProps.C17']
GEN = ['CeltTables', 'SilkIcdf']
SOURCES = ['celt/cwrs.c', 'celt/celt_encoder.c', 'celt/celt.c', 'celt/modes.c', 'celt/celt_decoder.c', 'celt/celt_encoder.c', 'celt/cwrs.h', 'celt/laplace.c', 'celt/laplace.h', 'celt/quant_bands.c', 'celt/rate.c',
           'celt/rate.h', 'celt/vq.c', 'celt/celt.h', 'celt/modes.c', 'celt/static_modes_float.h', 'celt/entcode.h',
           'silk/tables_LTP.c', 'silk/tables_NLSF_CB_NB_MB.c', 'silk/tables_NLSF_CB_WB.c', 'silk/tables_gain.c',
           'silk/tables_other.c', 'silk/tables_pitch_lag.c', 'silk/tables_pulses_per_block.c', 'silk/tables.h',
           'silk/shell_coder.c', 'silk/code_signs.c', 'silk/NLSF_unpack.c']
RULE = ('cwrs: for every (N,K) of the static mode\'s pulse cache (23 band sizes x K = get_pulses(1..cache[0]), 369 pairs, '
        'plus N in 2..14 the table supports but the mode does not use) all indices 0..V(N,K)-1 in blocks of 4096 when '
        'V <= 2^20 (quick) / 2^22 (thorough; the implementation-only search goes to 2^24), otherwise 64 strata x 64 indices + both ends + the sign/zero boundaries; '
        'encode_pulses on random K-pulse vectors of four shapes; bits2pulses for bits -2..300 and pulses2bits on every cache row. '
        'laplace: all 32768 fm and all values -17000..17000 (clamping included) for every distinct (fs,decay) pair of '
        'e_prob_model plus random legal pairs incl. the domain corners; _p0 variants on random (p0,decay,value). '
        'alloc: clt_compute_allocation (real rate.c, only the four ec_* entry points stubbed) on 40k (quick) / 400k (thorough) random '
        'inputs per run: all LM, C, the CELT-only and hybrid band ranges plus random ones, totals -20..81600 incl. 0 and 8, trims 0..10, '
        'dynalloc-like offsets up to cap+quanta, encoder and decoder side, every output array and the coder calls compared; and every '
        'REAL call made by the encoder and decoder while coding 120 configurations (link-time --wrap). '
        'hdrenc: the real celt_encode_with_ec inside the public encoder (opus_encode; link-time --wrap on the ec_enc_* entry '
        'points, ec_laplace_encode, quant_coarse_energy and clt_compute_allocation) on 160 configurations (all LM, NB..FB, mono/stereo, CELT-only and hybrid, '
        'CBR/VBR/CVBR, tiny budgets, silence) x 25 (quick) / 150 (thorough) frames: the recorded decisions are replayed through the Lean '
        'encoder model and the complete list of coder calls with their arguments, the final coder state and the entry condition '
        'storage == nbCompressedBytes must be identical; plus '
        'quant_coarse_energy called directly on 20k / 200k random states incl. budgets of 0..40 bits. '
        'frameenc: the same frames continued to ec_enc_done (additionally ec_encode and ec_enc_done wrapped): fine energy, every '
        'quant_all_bands call (theta_rdo codes a band twice and restores the coder: the surviving trial is identified by following the '
        'coder states incl. a hash of the bytes written), anti-collapse bit, finalisation; the decisions read off the calls are replayed '
        'through the Lean frame encoder model and all calls, their parameters and the coder state before ec_enc_done must be identical. '
        'A case is one protocol line; a block line stands for up to 4096 (cwrs) / 32768 (laplace) compared evaluations; '
        'distinct = (op, outcome kind) classes')
NOT_COVERED = [
    'CELT frame round trip: silent frames (header only: their band data is not modelled — fine energy has no budget test, so "nothing '
    'is read" would need the allocation\'s outputs for sub-one-bit budgets); the trace statement covers the calls behind the allocation, '
    'not the header\'s; the PVQ leaf decision is the codeword index '
    '(bijective with alg_quant\'s pulse vector by cwrsi_icwrs / icwrs_cwrsi), theta_rdo\'s discarded trial encodings are not modelled; '
    'the FUZZING build, custom modes, '
    'lfe streams on real frames (lfe is modelled and covered by the direct coarse-energy tie only), the degenerate hybrid case in which the '
    'SILK part has already filled the packet (tell >= len*8 on entry: hypothesis hroom), and the allocation of SILENT frames (encoder and '
    'decoder legitimately call clt_compute_allocation with different, sub-one-bit budgets when VBR shrinks the packet)',
    'OBSERVATION on the unchanged code (no listed property violated; reported to the coordinator): in quant_coarse_energy_impl\'s one-bit '
    'fall-back (budget-tell == 1) the encoder keeps qi = IMIN(0, qi) for its own oldEBands/error while the decoder reconstructs -1; the '
    'bits_left < 16 clamp hides this for every band but i == start, so after a hybrid frame whose SILK part leaves exactly one bit the '
    'encoder\'s prediction state of band `start` can differ from the decoder\'s (theorem coarse_state_agrees_except_one_bit_start pins '
    'the branch down; reproduction: harness/c17_hdrenc.c coarse, 113 of 20000 direct calls; proposed patch qi = IMAX(-1, IMIN(0, qi)))',
    'bit allocation: the FUZZING build\'s random skip decision, custom modes (only the static 48 kHz mode\'s tables), and the true cost of '
    'ec_enc_uint for the intensity parameter (charged at LOG2_FRAC_TABLE[codedBands-start] as the allocator itself does; C08 bounds the coder)',
    'the range coder itself (ec_enc_uint/ec_dec_uint, ec_encode_bin/ec_decode_bin, ec_enc_icdf/ec_dec_icdf) is property C08; '
    'here it is stubbed in the correspondence and used for real only in the witness search',
    'compute_pulse_cache is CUSTOM_MODES-only code and is not part of the library in this configuration: the theorems tie its Lean '
    're-implementation (index, bits and caps) to the SHIPPED tables, and the search re-runs the C function (compiled in a harness TU '
    'with CUSTOM_MODES) against the same tables; the two are not compared line by line',
    'SMALL_FOOTPRINT and CUSTOM_MODES variants of cwrs.c (not compiled in this configuration)',
    'ICDF tables built at run time other than the Laplace _p0 ones and the VAD/LBRR placeholder (e.g. none known)',
    'that each call site passes the ftb recorded in OpusModel/Icdf.lean is checked by a source scan (tie icdf-ftb-scan), not by the compiler',
]
ASSUMPTIONS = [
    'CELT header round trip: enc->storage == nbCompressedBytes <= 1275 on entry (opus_encoder.c shrinks the coder before calling CELT); no '
    'ec_enc_shrink after the header; final length = budgeted size, or (VBR) at least 16 whole bits and tell_frac+total_boost+48 eighth-bits '
    'beyond the header (celt_encoder.c min_allowed gives 128); tell < len*8 on entry; with the post-filter on, tell+2 <= len*8 in front of the '
    'tapset (nbAvailableBytes > 12*C); intensity >= start and dual_stereo in {0,1}; nbits_total < 2^29; the range coder reports no error',
    'bit allocation: start < end <= 21, C in {1,2}, LM <= 3, offsets >= 0, 0 <= cap <= 2^24 (proved for init_caps), total <= 2^24; on the '
    'encoder side dual_stereo in {0,1} and start <= intensity (celt_encoder.c clamps both); C int arithmetic modelled unbounded with the '
    'uint32 conversion of celt_udiv modelled exactly',
    'cwrsi is called with _i < V(_n,_k) (guaranteed by ec_dec_uint)',
    'C unsigned/int arithmetic is modelled unbounded; cache_reachable_fits / LaplaceOk bound every intermediate below 2^32 on the stated domain',
]
REQUIRED_THEOREMS = [
    'OpusProps.C17.Utab_eq_U', 'OpusProps.C17.U_rec', 'OpusProps.C17.U_symm', 'OpusProps.C17.V_rec',
    'OpusProps.C17.cwrsi_icwrs', 'OpusProps.C17.icwrs_cwrsi', 'OpusProps.C17.cache_reachable_fits',
    'OpusProps.C17.cwrsi_table', 'OpusProps.C17.icwrs_table',
    'OpusProps.C17.cache_eq_recomputed', 'OpusProps.C17.cache_rows_monotone', 'OpusProps.C17.cache_consistent_with_V',
    'OpusProps.C17.icdf_ok', 'OpusProps.C17.icdf_tiles',
    'OpusProps.C17.eprob_pairs_ok', 'OpusProps.C17.laplace_decode_encode', 'OpusProps.C17.laplace_encode_decode',
    'OpusProps.C17.laplace_tiles', 'OpusProps.C17.laplace_p0_roundtrip', 'OpusProps.C17.laplace_p0_icdfs_ok',
    'OpusProps.C17.laplace_domain_ok', 'OpusProps.C17.laplace_int_ranges', 'OpusProps.C17.bits2pulses_spec',
    'OpusProps.C17.pulses2bits_cache', 'OpusProps.C17.cache_caps_recomputed', 'OpusProps.C17.cwrs_int_ranges',
    'OpusProps.C17.cwrs_val_ranges', 'OpusProps.C17.init_caps_domain', 'OpusProps.C17.alloc_total_ranges_budget',
    'OpusProps.C17.alloc_enc_dec_agree', 'OpusProps.C17.celt_header_roundtrip',
    'OpusProps.C17.celt_header_roundtrip_silence', 'OpusProps.C17.coarse_state_agrees_except_one_bit_start',
    'OpusProps.C17.celt_bands_roundtrip', 'OpusProps.C17.celt_frame_roundtrip',
]
UNPROVED = [
]
LEVEL_TEXT = ('full proof: U/V recurrence and symmetry; cwrsi and icwrs (transcribed loop by loop from cwrs.c, both branches and '
              'the n==2/n==1 tails) are mutually inverse bijections between K-pulse vectors and [0,V(N,K)) for ALL N>=2, K>=1; the 1272 '
              'regenerated table words equal U(N,K) and are < 2^32; every (N,K) of the static mode\'s cache has V < 2^32 and a table walk '
              'inside its rows; the shipped pulse cache equals the Lean re-implementation of compute_pulse_cache, is monotone and brackets '
              '8*log2 V; all 171 static ICDF tables of celt/ and silk/ are strictly decreasing to 0 below 2^ftb, which is proved to make the '
              'symbol intervals tile [0,2^ftb); the Laplace encoder/decoder intervals tile [0,32768) and decode inverts encode after '
              'clamping for every (fs,decay) satisfying LaplaceOk, which is proved for the whole documented domain 0<fs<=32736, 0<decay<=11456 '
              '(and checked on every e_prob_model pair); the _p0 variants round-trip and their run-time ICDFs are exact codes; bits2pulses is '
              'characterised exactly (nearest neighbour of the budget, lower index on a tie) on every cache row, pulses2bits is monotone '
              '(strict for N>=3); cache.caps equals its recomputation; icwrs/cwrsi/laplace intermediates stay below 2^32; the CELT bit '
              'allocation (clt_compute_allocation + interp_bits2pulses + init_caps, transcribed) is total on its domain, keeps every output in '
              'range, meets the budget exactly, and its decoder side reproduces the encoder side from the coded symbols; the CELT frame header: the '
              'encoder\'s symbol writes (celt_encode_with_ec up to the return of clt_compute_allocation, every float-driven decision an input, '
              'transcribed and tied call by call) round-trip through C03\'s decoder model on the finished packet for every decision stream, '
              'buffer and continuation: all header fields, the allocation and rng/tell/tell_frac at both hand-overs agree, every budget test '
              'is shown to take the same branch on both sides; silent frames separately; the one branch where the encoder\'s kept coarse '
              'energy differs from the decoded one is pinned down; the rest of the CELT frame (fine energy, quant_all_bands with splits, '
              'stereo, all theta PDFs, PVQ indices, anti-collapse, finalise): the encoder model round-trips through C03\'s band decoder '
              'model with equal final range, ec_tell, ec_tell_frac — the CELT frame round trip, stated against C03\'s complete celtFrame '
              '(its call-by-call driving of the allocation is linked through an oracle-prefix determinism lemma for computeAllocation); the '
              'decoder model\'s trace of calls behind the allocation is shown to be the encoder\'s call list with the encoder\'s values')
LEVEL_NOTE = ('trusted: Lean kernel; the extractors tools/extract/CeltTables.c, SilkIcdf.c (tables go through the C compiler); the '
              'transcription of cwrs.c/laplace.c into Lean, tied by exact differential runs on the real code under ASan/UBSan with only '
              'the range-coder entry points stubbed; ftb values and table slices per call site (source scan + the tables captured at the '
              'real call sites by link-time wrapping, compared with the catalogue)')
TECHNIQUE = 'Lean 4 theorems (induction + decide on regenerated tables) + table regeneration + differential correspondence + witness search'


WRAP = ['-Wl,--wrap=ec_enc_icdf', '-Wl,--wrap=ec_dec_icdf', '-Wl,--wrap=clt_compute_allocation', '-Wl,--wrap=ec_enc_bit_logp',
        '-Wl,--wrap=ec_dec_bit_logp', '-Wl,--wrap=ec_enc_uint', '-Wl,--wrap=ec_dec_uint']


WRAP_HDR = ['-Wl,--wrap=' + x for x in ('celt_encode_with_ec', 'quant_coarse_energy', 'clt_compute_allocation', 'ec_laplace_encode',
                                          'ec_enc_bit_logp', 'ec_enc_uint', 'ec_enc_bits', 'ec_enc_icdf', 'ec_encode_bin', 'ec_enc_shrink',
                                          'ec_encode', 'ec_enc_done')]


def _harness(ctx, name, variant, **kw):
    """ctx.harness with a retry: the shared library cache (.cache/lib, pruned to the 8 newest trees) can lose a
    directory to a concurrent check of another property between build_lib and the compile."""
    for attempt in range(3):
        try:
            return ctx.harness(name, [name + '.c'], variant=variant, **kw)
        except RuntimeError as e:
            if attempt == 2 or 'No such file' not in str(e):
                raise
            ctx._libs.pop(variant, None)
            with common.Lock('lib-' + variant):
                shutil.rmtree(os.path.join(common.CACHE, 'lib', '%s-%s' % (common.repo_hash(), variant)), ignore_errors=True)


def _run_tie(name, cmd, timeout):
    """common.run_tie, waiting out the moments in which another owner's build is relinking the shared driver binary."""
    for attempt in range(12):
        try:
            return common.run_tie(name, cmd, timeout)
        except FileNotFoundError:
            if attempt == 11:
                raise
            time.sleep(10)


def ties(ctx):
    hc = _harness(ctx, 'c17_cwrs', 'san')
    hl = _harness(ctx, 'c17_laplace', 'san')
    level = '0' if ctx.quick else '1'
    n = 8 if ctx.quick else 16
    jobs = [('cwrs-%02d' % i, [hc, 'tie', level, str(i), str(n), str(ctx.seed)]) for i in range(n)]
    jobs.append(('laplace', [hl, 'tie', level, str(ctx.seed)]))
    hsites = _harness(ctx, 'c17_sites', 'plain', opt='-O2', extra=WRAP)
    jobs.append(('icdf-sites', [hsites, 'tie', str(ctx.seed), '30' if ctx.quick else '200']))
    ha = _harness(ctx, 'c17_alloc', 'san')
    jobs.append(('alloc', [ha, 'tie', level, str(ctx.seed)]))
    jobs.append(('alloc-real-frames', [hsites, 'alloc', str(ctx.seed), '30' if ctx.quick else '200']))
    hh = _harness(ctx, 'c17_hdrenc', 'plain', opt='-O1', extra=WRAP_HDR)
    jobs.append(('hdrenc-real-frames', [hh, 'tie', str(ctx.seed), '25' if ctx.quick else '150']))
    jobs.append(('hdrenc-coarse', [hh, 'coarse', str(ctx.seed), '20000' if ctx.quick else '200000']))
    with concurrent.futures.ThreadPoolExecutor(max_workers=5) as ex:   # shared machine: at most 5 harness|driver pipelines
        futs = [ex.submit(_run_tie, name, cmd, 6000) for name, cmd in jobs]
        out = [f.result() for f in futs]
    out.append(_ftb_scan())
    return out


def classify(ctx, tie, mm):
    # The property is relational (bijection / tiling), not "the code computes this particular enumeration":
    # a model/code disagreement alone is a broken correspondence; the witness search (S4) evaluates the
    # property on the implementation and supplies the failing codeword if there is one.
    # Exception: the ICDF clause IS "every table the code uses satisfies icdfOk": a table captured at a real call
    # site that the (proved) predicate rejects for the ftb of that call is a failing input of the property.
    if tie.name == 'icdf-sites' and 'ok=0' in (mm.get('model') or ''):
        return {'suite': 'icdf', 'input': mm.get('input', ''), 'expected': 'icdfOk ftb table (strictly decreasing, ends in 0, first entry < 2^ftb)',
                'observed': mm.get('model'), 'why': 'an ICDF table as passed to ec_enc_icdf/ec_dec_icdf at a real call site is not an exact code'}
    return None


def _parse(out, res):
    for line in out.split('\n'):
        if line.startswith('W '):
            f = line[2:].split('|')
            if len(f) >= 5:
                res['witnesses'].append({'suite': f[0], 'input': f[1], 'expected': f[2], 'observed': f[3], 'why': f[4]})
        elif line.startswith('X '):
            res['samples'].append(line[2:])
        elif line.startswith('S '):
            m = re.search(r'cases=(\d+)', line)
            res['cases'] += int(m.group(1)) if m else 0
            m = re.search(r'distinct=(\d+)', line)
            res['distinct'] += int(m.group(1)) if m else 0


FTB = {'trim_icdf': 7, 'spread_icdf': 5, 'tapset_icdf': 2, 'small_energy_icdf': 2}


def _call_args(src, pos):
    """Arguments of the call whose '(' is at src[pos], split at top-level commas; None if unbalanced."""
    depth, args, cur, i = 0, [], [], pos
    while i < len(src):
        c = src[i]
        if c in '([{':
            depth += 1
            if depth > 1:
                cur.append(c)
        elif c in ')]}':
            depth -= 1
            if depth == 0:
                args.append(''.join(cur).strip())
                return args
            cur.append(c)
        elif c == ',' and depth == 1:
            args.append(''.join(cur).strip()); cur = []
        else:
            cur.append(c)
        i += 1
    return None


def _ftb_scan():
    """Tie between the catalogue of OpusModel/Icdf.lean and the call sites: every ec_enc_icdf/ec_dec_icdf call of
    celt/ and silk/ must pass the ftb the table was verified for (8 for every SILK table, FTB[...] for the CELT ones).
    Calls are found by name and their argument lists by parenthesis matching (formatting-insensitive).  A call whose
    ftb is not an integer literal, or a CELT call on a table this scan does not know, is listed, not judged."""
    res = common.TieResult('icdf-ftb-scan')
    bad, unknown = [], []
    for d in ('celt', 'silk'):
        root = os.path.join(common.REPO, d)
        for fn in sorted(os.listdir(root)):
            if not fn.endswith('.c') or fn in ('entenc.c', 'entdec.c'):
                continue
            src = open(os.path.join(root, fn), errors='replace').read()
            src = re.sub(r'/\*.*?\*/', lambda m: re.sub(r'[^\n]', ' ', m.group(0)), src, flags=re.S)
            for m in re.finditer(r'\bec_(enc|dec)_icdf\s*\(', src):
                args = _call_args(src, m.end() - 1)
                want_n = 4 if m.group(1) == 'enc' else 3
                site = '%s/%s:%d' % (d, fn, src.count('\n', 0, m.start()) + 1)
                if args is None or len(args) != want_n:
                    unknown.append(site + ' (not a call)')
                    continue
                res.cases += 1
                tab, ftb = args[-2], args[-1]
                if not re.fullmatch(r'\d+', ftb):
                    unknown.append('%s ftb=%s' % (site, ftb))
                    continue
                want = 8 if d == 'silk' else None
                for k, v in FTB.items():
                    if re.search(r'\b%s\b' % k, tab):
                        want = v
                key = '%s ftb=%s' % (d, ftb)
                res.dist[key] = res.dist.get(key, 0) + 1
                if want is None:
                    unknown.append('%s table=%s' % (site, ' '.join(tab.split())))
                elif int(ftb) != want:
                    bad.append('%s: %s passed with ftb=%s, verified for ftb=%d' % (site, ' '.join(tab.split())[:80], ftb, want))
    res.notes.append('%d ec_enc_icdf/ec_dec_icdf call sites scanned' % res.cases)
    if unknown:
        res.notes.append('not judged: ' + '; '.join(unknown[:8]))
    if bad:
        res.error = ('call sites use an ICDF table with another ftb than the one OpusModel/Icdf.lean records '
                     '(icdf_ok no longer applies to them): ' + '; '.join(bad[:6]))
    return res


def search(ctx):
    res = {'cases': 0, 'distinct': 0, 'samples': [], 'witnesses': [],
           'oracle': 'on the real code only: cwrsi/icwrs index round trip and pulse count (exhaustive for V <= 2^20 quick / 2^24 '
                     'thorough, 21k stratified indices otherwise) for every cache (N,K); encode_pulses->bytes->decode_pulses and '
                     'ec_laplace_encode->bytes->ec_laplace_decode through the real range coder; PVQ table vs. the U recurrence in '
                     '64-bit; cache rows monotone and within [log2 V, log2 V + 0.25] bits; every ICDF table well-formed and every symbol '
                     'round-trips through ec_enc_icdf/ec_dec_icdf; Laplace symbol intervals in coding order 0,-1,+1,... adjacent and '
                     'ending at 32768, every fm decodes into the encoder\'s interval, for all e_prob_model pairs, random legal pairs '
                     'and a sweep of the documented (fs,decay) domain; every (table contents, ftb) pair that reaches '
                     'ec_enc_icdf/ec_dec_icdf (link-time --wrap) while the public encoder/decoder run over 120 configurations is '
                     'a well-formed ICDF for the ftb of that call; the real compute_pulse_cache (CUSTOM_MODES code, compiled in the '
                     'harness TU) re-run on the static mode reproduces the shipped cache.index/bits/caps word for word'}
    level = '0' if ctx.quick else '1'
    hs = _harness(ctx, 'c17_search', 'plain', opt='-O2')
    hl = _harness(ctx, 'c17_laplace', 'plain', opt='-O2')
    hsites = _harness(ctx, 'c17_sites', 'plain', opt='-O2', extra=WRAP)
    hcaps = _harness(ctx, 'c17_caps', 'plain', opt='-O1')
    halloc = _harness(ctx, 'c17_alloc', 'plain', opt='-O2')
    with concurrent.futures.ThreadPoolExecutor(max_workers=5) as ex:
        f5 = ex.submit(common.sh, [halloc, 'search', level, str(ctx.seed)], None, 3000)
        f4 = ex.submit(common.sh, [hcaps], None, 600)
        f1 = ex.submit(common.sh, [hs, level, str(ctx.seed)], None, 3000)
        f2 = ex.submit(common.sh, [hl, 'search', level, str(ctx.seed)], None, 3000)
        f3 = ex.submit(common.sh, [hsites, 'search', str(ctx.seed), '30' if ctx.quick else '200'], None, 3000)
        for name, f in (('c17_search', f1), ('c17_laplace search', f2), ('c17_sites search', f3), ('c17_caps', f4), ('c17_alloc search', f5)):
            rc, out = f.result()
            _parse(out, res)
            if rc != 0 or not re.search(r'^S cases=', out, re.M):
                res['witnesses'].append({'suite': name, 'input': '(whole run)', 'expected': 'search completes',
                                         'observed': 'rc=%d: %s' % (rc, out[-800:]),
                                         'why': 'witness search crashed on the implementation (assert / sanitizer / signal)'})
    return res
