"""C17 — PVQ, Laplace and table-driven symbol codes are exact, prefix-free bijections (DESIGN.md §7.C17)."""
import concurrent.futures, os, re
import common

LEAN_MODULES = ['OpusProps.C17']
GEN = ['CeltTables', 'SilkIcdf']
SOURCES = ['celt/cwrs.c', 'celt/cwrs.h', 'celt/laplace.c', 'celt/laplace.h', 'celt/quant_bands.c', 'celt/rate.c',
           'celt/rate.h', 'celt/vq.c', 'celt/celt.h', 'celt/modes.c', 'celt/static_modes_float.h', 'celt/entcode.h',
           'silk/tables_LTP.c', 'silk/tables_NLSF_CB_NB_MB.c', 'silk/tables_NLSF_CB_WB.c', 'silk/tables_gain.c',
           'silk/tables_other.c', 'silk/tables_pitch_lag.c', 'silk/tables_pulses_per_block.c', 'silk/tables.h',
           'silk/shell_coder.c', 'silk/code_signs.c', 'silk/NLSF_unpack.c']
RULE = ('cwrs: for every (N,K) of the static mode\'s pulse cache (23 band sizes x K = get_pulses(1..cache[0]), 369 pairs, '
        'plus N in 2..14 the table supports but the mode does not use) all indices 0..V(N,K)-1 in blocks of 4096 when '
        'V <= 2^20 (quick) / 2^24 (thorough), otherwise 64 strata x 64 indices + both ends + the sign/zero boundaries; '
        'encode_pulses on random K-pulse vectors of four shapes; bits2pulses for bits -2..300 and pulses2bits on every cache row. '
        'laplace: all 32768 fm and all values -17000..17000 (clamping included) for every distinct (fs,decay) pair of '
        'e_prob_model plus random legal pairs incl. the domain corners; _p0 variants on random (p0,decay,value). '
        'A case is one protocol line; a block line stands for up to 4096 (cwrs) / 32768 (laplace) compared evaluations; '
        'distinct = (op, outcome kind) classes')
NOT_COVERED = [
    'the range coder itself (ec_enc_uint/ec_dec_uint, ec_encode_bin/ec_decode_bin, ec_enc_icdf/ec_dec_icdf) is property C08; '
    'here it is stubbed in the correspondence and used for real only in the witness search',
    'the general claim "tail room >= 2 for ALL fs in (0,32736], decay in (0,11456]" behind the comment "decay is positive and at '
    'most 11456" is searched (full sweep in the thorough tier), not proved; the theorems quantify over every (fs,decay) with '
    'LaplaceOk, which is proved for every e_prob_model pair',
    'the cache_caps table (rate.c:145-242) is regenerated but not recomputed by a theorem',
    'SMALL_FOOTPRINT and CUSTOM_MODES variants of cwrs.c (not compiled in this configuration)',
    'ICDF tables built at run time other than the Laplace _p0 ones and the VAD/LBRR placeholder (e.g. none known)',
    'that each call site passes the ftb recorded in OpusModel/Icdf.lean is checked by a source scan in the search stage, not by the compiler',
]
ASSUMPTIONS = [
    'cwrsi is called with _i < V(_n,_k) (guaranteed by ec_dec_uint) and K <= 32767 (opus_int16 val)',
    'C unsigned/int arithmetic is modelled unbounded; cache_reachable_fits / LaplaceOk bound every intermediate below 2^32 on the stated domain',
]
REQUIRED_THEOREMS = [
    'OpusProps.C17.Utab_eq_U', 'OpusProps.C17.U_rec', 'OpusProps.C17.U_symm', 'OpusProps.C17.V_rec',
    'OpusProps.C17.cwrsi_icwrs', 'OpusProps.C17.icwrs_cwrsi', 'OpusProps.C17.cache_reachable_fits',
    'OpusProps.C17.cwrsi_table', 'OpusProps.C17.icwrs_table',
    'OpusProps.C17.cache_eq_recomputed', 'OpusProps.C17.cache_rows_monotone', 'OpusProps.C17.cache_consistent_with_V',
    'OpusProps.C17.icdf_ok', 'OpusProps.C17.icdf_tiles',
    'OpusProps.C17.eprob_pairs_ok', 'OpusProps.C17.laplace_decode_encode', 'OpusProps.C17.laplace_encode_decode',
    'OpusProps.C17.laplace_tiles',
]
LEVEL_TEXT = ('full proof: U/V recurrence and symmetry; cwrsi and icwrs (transcribed loop by loop from cwrs.c, both branches and '
              'the n==2/n==1 tails) are mutually inverse bijections between K-pulse vectors and [0,V(N,K)) for ALL N>=2, K>=1; the 1272 '
              'regenerated table words equal U(N,K) and are < 2^32; every (N,K) of the static mode\'s cache has V < 2^32 and a table walk '
              'inside its rows; the shipped pulse cache equals the Lean re-implementation of compute_pulse_cache, is monotone and brackets '
              '8*log2 V; all 171 static ICDF tables of celt/ and silk/ are strictly decreasing to 0 below 2^ftb, which is proved to make the '
              'symbol intervals tile [0,2^ftb); the Laplace encoder/decoder intervals tile [0,32768) and decode inverts encode after '
              'clamping for every (fs,decay) satisfying LaplaceOk, which holds for every e_prob_model pair')
LEVEL_NOTE = ('trusted: Lean kernel; the extractors tools/extract/CeltTables.c, SilkIcdf.c (tables go through the C compiler); the '
              'transcription of cwrs.c/laplace.c into Lean, tied by exact differential runs on the real code under ASan/UBSan with only '
              'the range-coder entry points stubbed; ftb values per call site (source scan)')
TECHNIQUE = 'Lean 4 theorems (induction + decide on regenerated tables) + table regeneration + differential correspondence + witness search'


def ties(ctx):
    hc = ctx.harness('c17_cwrs', ['c17_cwrs.c'], variant='san')
    hl = ctx.harness('c17_laplace', ['c17_laplace.c'], variant='san')
    level = '0' if ctx.quick else '1'
    n = 8 if ctx.quick else 16
    jobs = [('cwrs-%02d' % i, [hc, 'tie', level, str(i), str(n), str(ctx.seed)]) for i in range(n)]
    jobs.append(('laplace', [hl, 'tie', level, str(ctx.seed)]))
    with concurrent.futures.ThreadPoolExecutor(max_workers=len(jobs)) as ex:
        futs = [ex.submit(common.run_tie, name, cmd, 6000) for name, cmd in jobs]
        return [f.result() for f in futs]


def classify(ctx, tie, mm):
    # The property is relational (bijection / tiling), not "the code computes this particular enumeration":
    # a model/code disagreement alone is a broken correspondence; the witness search (S4) evaluates the
    # property on the implementation and supplies the failing codeword if there is one.
    return None


def _parse(out, res):
    for line in out.split('\n'):
        if line.startswith('W '):
            f = line[2:].split('|')
            if len(f) >= 5:
                res['witnesses'].append({'suite': f[0], 'input': f[1], 'expected': f[2], 'observed': f[3], 'why': f[4]})
        elif line.startswith('X '):
            res['samples'].append(line[2:])
        elif line.startswith('S '):
            m = re.search(r'cases=(\d+)', line)
            res['cases'] += int(m.group(1)) if m else 0
            m = re.search(r'distinct=(\d+)', line)
            res['distinct'] += int(m.group(1)) if m else 0


FTB = {'trim_icdf': 7, 'spread_icdf': 5, 'tapset_icdf': 2, 'small_energy_icdf': 2}


def _ftb_scan(res):
    """Every ec_enc_icdf/ec_dec_icdf call site of celt/ and silk/ must pass the ftb recorded in OpusModel/Icdf.lean
    (8 for every SILK table, FTB[...] for the CELT ones)."""
    pat = re.compile(r'ec_(?:enc|dec)_icdf\s*\((.*?),\s*(\d+)\s*\)\s*[;)+:]', re.S)
    n = 0
    for d in ('celt', 'silk'):
        root = os.path.join(common.REPO, d)
        for fn in sorted(os.listdir(root)):
            if not fn.endswith('.c') or fn in ('entenc.c', 'entdec.c'):
                continue
            src = open(os.path.join(root, fn), errors='replace').read()
            src = re.sub(r'/\*.*?\*/', '', src, flags=re.S)
            for m in pat.finditer(src):
                args, ftb = m.group(1), int(m.group(2))
                n += 1
                want = 8
                for k, v in FTB.items():
                    if re.search(r'\b%s\b' % k, args):
                        want = v
                if d == 'celt' and want == 8:
                    want = None
                if ftb != want:
                    res['witnesses'].append({
                        'suite': 'icdf', 'input': '%s/%s: %s' % (d, fn, ' '.join(m.group(0).split())[:160]),
                        'expected': 'ftb=%s as recorded in OpusModel/Icdf.lean' % want, 'observed': 'ftb=%d' % ftb,
                        'why': 'call site uses an ICDF table with a different ftb than the one it was verified for'})
    res['cases'] += n
    res['samples'].append('%d ec_enc_icdf/ec_dec_icdf call sites scanned for their ftb argument' % n)


def search(ctx):
    res = {'cases': 0, 'distinct': 0, 'samples': [], 'witnesses': [],
           'oracle': 'on the real code only: cwrsi/icwrs index round trip and pulse count (exhaustive for V <= 2^20 quick / 2^24 '
                     'thorough, 21k stratified indices otherwise) for every cache (N,K); encode_pulses->bytes->decode_pulses and '
                     'ec_laplace_encode->bytes->ec_laplace_decode through the real range coder; PVQ table vs. the U recurrence in '
                     '64-bit; cache rows monotone and within [log2 V, log2 V + 0.25] bits; every ICDF table well-formed and every symbol '
                     'round-trips through ec_enc_icdf/ec_dec_icdf; Laplace symbol intervals in coding order 0,-1,+1,... adjacent and '
                     'ending at 32768, every fm decodes into the encoder\'s interval, for all e_prob_model pairs, random legal pairs '
                     'and a sweep of the documented (fs,decay) domain'}
    level = '0' if ctx.quick else '1'
    hs = ctx.harness('c17_search', ['c17_search.c'], variant='plain', opt='-O2')
    hl = ctx.harness('c17_laplace', ['c17_laplace.c'], variant='plain', opt='-O2')
    with concurrent.futures.ThreadPoolExecutor(max_workers=2) as ex:
        f1 = ex.submit(common.sh, [hs, level, str(ctx.seed)], None, 3000)
        f2 = ex.submit(common.sh, [hl, 'search', level, str(ctx.seed)], None, 3000)
        for name, f in (('c17_search', f1), ('c17_laplace search', f2)):
            rc, out = f.result()
            _parse(out, res)
            if rc != 0 or not re.search(r'^S cases=', out, re.M):
                res['witnesses'].append({'suite': name, 'input': '(whole run)', 'expected': 'search completes',
                                         'observed': 'rc=%d: %s' % (rc, out[-800:]),
                                         'why': 'witness search crashed on the implementation (assert / sanitizer / signal)'})
    _ftb_scan(res)
    return res
