"""C08, slice Hybrid — frame-level lock step for HYBRID Opus frames WITH the redundancy signalling
(src/opus_encoder.c opus_encode_frame_native: ec_enc_bit_logp(redundancy,12), celt_to_silk bit, ec_enc_uint(redundancy_bytes-2,256),
ec_enc_shrink, CELT part from band 17 on the shared coder, 5 ms redundancy frame behind it; src/opus_decoder.c:398-460, 558-616).

Theorems: lean/OpusProps/C08Hybrid.lean (proofs lean/OpusProofs/OpusFrameHybridRed*.lean; lean/OpusModel/OpusFrameHybridDec.lean: the `len <= 1 -> rangeFinal = 0` branch) on the existing models
OpusModel.OpusFrameEnc.hybridFrame (encoder) and C03's decodeOpusFrame / OpusFrameEnc.decRangeFinal (decoder).

S3 tie (harness/c08_hybrid.c vs. Driver.SuiteRangeCoder op `hred`):
  rangecoder-hybridred      real hybrid packets from the real opus_encode (48 kHz, mono/stereo, 10/20 ms, SWB/FB, VBR / constrained VBR /
                            CBR, byte budgets 30..220 or 1276) driven through forced mode switches HYBRID <-> CELT-only (<-> SILK-only)
                            and SWB <-> FB switches, so that redundancy frames occur in both directions; link-time wrappers around
                            celt_decode_with_ec / celt_decode_with_ec_dred observe the REAL decoder's (redundancy, celt_to_silk,
                            redundancy_bytes); the model's decoder side on the frame bytes must reproduce these and OPUS_GET_FINAL_RANGE
                            of the real decoder exactly; model-free in the same line: encoder final range = decoder final range and the
                            encoder-side (redundancy, celt_to_silk, redundancy_bytes) (wrapper around celt_encode_with_ec) equal the decoder's
  rangecoder-hybridred-mal  the same packets with a bit flipped / bytes overwritten / truncated / the tail inverted: the model must
                            still predict the real decoder's redundancy parse and final range
S4 search: the model-free predicate alone on further streams (other seed)."""
import os, re, subprocess
import common

LEAN_MODULES = ['OpusProps.C08Hybrid']
GEN = ['CeltTables', 'SilkEncBits']
SOURCES = ['src/opus_encoder.c', 'src/opus_decoder.c', 'celt/entenc.c', 'celt/entdec.c', 'celt/entcode.c', 'celt/celt_decoder.c',
           'celt/celt_encoder.c', 'celt/bands.c', 'celt/rate.c', 'celt/quant_bands.c', 'silk/dec_API.c', 'silk/enc_API.c']
REQUIRED_THEOREMS = ['OpusProps.C08Hybrid.opus_frame_lockstep_hybrid_red_partial',
                     'OpusProps.C08Hybrid.opus_frame_lockstep_hybrid_red_cbr_partial',
                     'OpusProps.C08Hybrid.opus_frame_lockstep_hybrid_nored_flag',
                     'OpusProps.C08Hybrid.hybrid_red_main_part_roundtrip',
                     'OpusProps.C08Hybrid.hybrid_red_gate_cbr', 'OpusProps.C08Hybrid.hybrid_red_sane_cbr']
UNPROVED = [
    'opus_frame_lockstep_hybrid_red (without _partial): the CELT main part of a hybrid frame WITH redundancy decoded from the state '
    'C03\'s decoder hands over. C17\'s celt_frame_roundtrip starts from a decoder initialised on the main part alone (a `World`); the '
    'real decoder was initialised on main part ++ redundancy bytes, may hold up to three look-ahead bytes of the redundancy frame in '
    '`val` before `dec.storage -= redundancy_bytes`, and keeps those bytes in its buffer behind `storage`. Discharging the hypothesis '
    '`hmain` needs C17\'s round trip for ANY byte stream whose code value lies in the encoder\'s final interval (the form the SILK prefix '
    'already has: frame_prefix_decode) — about 4000 lines of C17 proofs are stated for `World.decAt` instead.',
]
RULE = ('streams of 6..16 packets from the real opus_encode on generated 48 kHz audio (silence, noise, harmonic + high-band tone, chirp; '
        'stereo scaled / inverted), mono or stereo, 10 or 20 ms, SWB or FB with a switch before 15% of the packets, VOIP / AUDIO, '
        'VBR / constrained VBR / CBR in equal shares, 12..64 kb/s per channel with a change before 10% of the packets, complexity 0..10, '
        'FEC on in 25%, max_data_bytes 1276 or (35%) 30..220; before 40% of the packets the forced mode changes (HYBRID <-> CELT-only, '
        'sometimes SILK-only) — these bring redundancy frames with celt_to_silk = 0 (last hybrid frame before CELT-only) and = 1 '
        '(first hybrid frame after CELT-only / bandwidth switch). A case is one hybrid code-0 packet; classes: redundancy 0 / '
        '(redundancy 1, celt_to_silk 0/1) x (CBR / VBR) x mono/stereo, counted in the harness summary line. Malformed stream: the same '
        'packets with one bit flipped, three bytes overwritten, a truncation to 2..len bytes, or a tail byte inverted.')
NOT_COVERED = [
    'the CELT main part of a hybrid frame WITH redundancy is a hypothesis of opus_frame_lockstep_hybrid_red_partial (see UNPROVED); the '
    'tie covers it on the implementation side (the model decoder reproduces the real decoder\'s final range on every generated packet)',
    'the encoder-side model hybridFrame takes the CELT operations / the redundancy frame\'s CELT decisions as inputs (C17\'s encoder '
    'model); it has no byte-exact correspondence run of its own here: the tie compares the DECODER model with the real decoder on the '
    'real encoder\'s packets and, model-free, the real encoder\'s final range with the real decoder\'s',
    'silent redundancy frames, DTX, the "SILK busted its target" fallback, multi-frame (code 1..3) hybrid packets (the tie uses code-0 '
    'packets; repacketised hybrid frames decode frame by frame through the same opus_decode_frame)',
    'the length contracts hgate (ec_tell_before + 37 <= 8*(ret + redundancy_bytes)) and hsane (ec_tell behind the signalling <= 8*ret) are '
    'hypotheses of opus_frame_lockstep_hybrid_red_partial when the CELT encoder shrinks the main part (VBR); for CBR '
    'opus_frame_lockstep_hybrid_red_cbr_partial derives both from the encoder\'s budget test and its max_redundancy bound (the IMAX(2, .) '
    'override of a max_redundancy < 2 is outside: then the encoder may leave fewer bits than the signalling needs and the decoder drops '
    'the redundancy, opus_decoder.c:492-497)',
]
ASSUMPTIONS = [
    'DSP decisions (SILK indices / pulses, CELT decisions, redundancy_bytes) are inputs of the encoder models',
    'ec_enc_done leaves error = 0 (the encoder\'s normal path), nbits_total < 2^29 where a C17 World is built',
]
LEVEL_TEXT = ('Lean theorems about the op-level encoder model of opus_encode_frame_native (hybridFrame) against C03\'s decoder model '
              '(decodeOpusFrame, celtFrame), composed from C08\'s range-coder inversion, C03/C08\'s SILK round trip and C17\'s CELT frame '
              'round trip; the decoder model is tied to the real decoder on real hybrid packets with redundancy (exact redundancy parse '
              'and final range), under ASan/UBSan')
LEVEL_NOTE = ('trusted: Lean kernel; harness, link-time wrappers, line protocol, Lean driver; the main CELT part with redundancy enters '
              'the theorem as a hypothesis (named _partial)')
TECHNIQUE = 'Lean 4 theorems composing existing round trips + differential run of the decoder model against the real decoder on real packets'

QUICK_STREAMS, THOROUGH_STREAMS = 400, 6000
QUICK_MAL, THOROUGH_MAL = 150, 2500
QUICK_SEARCH, THOROUGH_SEARCH = 500, 10000
WRAP = ['-Wl,' + ','.join('--wrap=' + f for f in ('celt_decode_with_ec', 'celt_decode_with_ec_dred', 'celt_encode_with_ec'))]


def _harness(ctx):
    return ctx.harness('c08_hybrid', ['c08_hybrid.c'], variant='san', extra=WRAP)


def _env():
    e = dict(os.environ)
    e.setdefault('ASAN_OPTIONS', 'detect_leaks=0:abort_on_error=0')
    e.setdefault('UBSAN_OPTIONS', 'print_stacktrace=1')
    return e


def _short(s, n=600):
    return s if len(s) <= n else s[:n] + ' ...[%d chars]' % len(s)


def _tidy(tr):
    tr.samples = [_short(s, 400) for s in tr.samples]
    d = {}
    for k, v in tr.dist.items():     # answers `<red> <c2s> <rb> F <range> E ok`: class = (redundancy, celt_to_silk)
        m = re.match(r'(\d+) (\d+) (\d+) F', k)
        key = 'hred:red=%s:c2s=%s' % (m.group(1), m.group(2)) if m else 'hred:' + k.split(' ')[0]
        d[key] = d.get(key, 0) + v
    tr.dist = d
    return tr


def ties(ctx):
    h = _harness(ctx)
    specs = [('rangecoder-hybridred', [h, 'rand', str(ctx.seed), str(QUICK_STREAMS if ctx.quick else THOROUGH_STREAMS)]),
             ('rangecoder-hybridred-mal', [h, 'mal', str(ctx.seed), str(QUICK_MAL if ctx.quick else THOROUGH_MAL)])]
    return [_tidy(t) for t in common.run_ties_parallel(specs, workers=2)]


def _ediff(suite, inp, impl):
    m = re.match(r'(\d+) (\d+) (\d+) F (\d+) E diff:opus_decode=(-?\d+),enc_range=(\d+),enc_red=(\d+)/(\d+)/(\d+)', impl)
    if not m:
        return None
    return {'suite': suite, 'input': _short(inp, 3000),
            'expected': 'decoder final range = encoder final range %s and decoder (redundancy, celt_to_silk, redundancy_bytes) = encoder\'s %s/%s/%s'
                        % (m.group(6), m.group(7), m.group(8), m.group(9)),
            'observed': 'opus_decode=%s final_range=%s parse=%s/%s/%s' % (m.group(5), m.group(4), m.group(1), m.group(2), m.group(3)),
            'why': 'real encoder and real decoder disagree on a hybrid packet (no model involved): the decoder does not invert the '
                   'encoder\'s range-coder stream / redundancy signalling'}


def classify(ctx, tie, mm):
    inp, impl = mm.get('input', ''), mm.get('impl', '')
    if impl in ('SANITIZER', 'ABORT', 'SIGSEGV'):
        return {'suite': tie.name, 'input': _short(inp, 3000), 'expected': 'a hybrid packet is encoded and decoded to completion',
                'observed': impl, 'why': 'sanitizer report / celt_assert while coding or decoding a hybrid frame: '
                + ' | '.join(mm.get('sanitizer_report', [])[:6])}
    if tie.name == 'rangecoder-hybridred':
        return _ediff(tie.name, inp, impl)
    return None


def search(ctx):
    h = _harness(ctx)
    n = QUICK_SEARCH if ctx.quick else THOROUGH_SEARCH
    seed = (ctx.seed * 1000003 + 0xC08B) & ((1 << 31) - 1)
    p = subprocess.run([h, 'rand', str(seed), str(n)], stdout=subprocess.PIPE, stderr=subprocess.PIPE, text=True, env=_env())
    witnesses, cases, notes, samples, classes = [], 0, [], [], set()
    inp = ''
    for l in p.stdout.split('\n'):
        if l.startswith('I '):
            inp = l[2:]
        elif l.startswith('O '):
            cases += 1
            a = l[2:]
            if a in ('SANITIZER', 'ABORT', 'SIGSEGV'):
                witnesses.append({'suite': 'rangecoder-hybridred-search', 'input': _short(inp, 3000), 'expected': 'a hybrid packet is encoded and decoded to completion',
                                  'observed': a, 'why': 'trap while coding / decoding: ' + ' | '.join(
                                      x for x in p.stderr.split('\n') if 'ERROR' in x or 'runtime error' in x or x.startswith('SUMMARY'))[:1200]})
                continue
            f = a.split(' ')
            classes.add((f[0], f[1], inp.split(' ')[3], inp.split(' ')[4]))
            w = _ediff('rangecoder-hybridred-search', inp, a)
            if w:
                witnesses.append(w)
            if len(samples) < 3 and f[0] == '1':
                samples.append(_short(inp, 300))
        elif l.startswith('# '):
            notes.append(l[2:])
    if not any(x.startswith('hred streams=') for x in notes) and not witnesses:
        raise RuntimeError('search harness ended without a summary (rc=%d): %s' % (p.returncode, p.stderr[-1500:]))
    return {'cases': cases, 'distinct': len(classes),
            'oracle': 'implementation only: on every hybrid packet the real opus_decode returns the frame size, ends with the final range the real '
                      'opus_encode reports, and performs the redundancy decode the encoder performed (same celt_to_silk order, same redundancy_bytes)',
            'seed': seed, 'notes': notes[:6], 'samples': samples, 'witnesses': witnesses}
