"""C13 — 16-bit, 24-bit and float PCM are interchangeable views of the same codec (DESIGN.md §7.C13)."""
import os, re, subprocess
import common

LEAN_MODULES = ['OpusProps.C13']
GEN = []
SOURCES = ['src/opus_private.h', 'src/opus_multistream.c', 'celt/arch.h', 'celt/float_cast.h', 'celt/mathops.c', 'celt/mathops.h', 'src/opus_encoder.c',
           'src/opus_decoder.c', 'src/opus.c', 'src/opus_multistream_encoder.c', 'src/opus_multistream_decoder.c',
           'src/opus_projection_decoder.c', 'src/mapping_matrix.c', 'src/analysis.c', 'include/opus.h',
           'celt/x86/x86cpu.c']
REQUIRED_THEOREMS = ['OpusProps.C13.' + t for t in (
    'inputs_coincide', 'encode_formats_agree', 'ms_formats_agree', 'in24_exact', 'rne_nearest_even', 'out24_spec', 'out16_spec',
    'sat16_range', 'views_roundtrip', 'proj16_saturates', 'proj16_tracks', 'proj16_tracks_float')]
UNPROVED = ['projection: the accumulated binary32 rounding of the float path itself (distance of projOutF, which is modelled '
            'bit-exactly and tied to mapping_matrix_multiply_channel_out_float, from the exact product sumExactF) is not '
            'bounded by a theorem; proj16_tracks_float bounds the 16-bit output against the exact product (one LSB per '
            'column); the end-to-end bound |int16 - 32768*float| <= columns + 0.5 is searched on the implementation (S4 proj)',
            'that the shared core is a function of exactly the arguments the model passes (opus_res samples, effective '
            'lsb_depth, analysis samples through the down-mix callback) and of the encoder state: this is the '
            'determinism property C12; here it is a structural fact of opus_encode_native\'s signature, and the S4 twin-'
            'encoder run checks its consequence (byte-identical packets and final ranges)']
RULE = ('entry points: the real opus_encode / opus_encode24 / opus_encode_float and opus_decode / opus_decode24 / '
        'opus_decode_float compiled from src/opus_encoder.c / src/opus_decoder.c with only the CALL of the shared core '
        'redirected to a recorder: random rate, channels, st->lsb_depth 8..24, expert frame duration ARG/2.5..40 ms, buffer '
        'sizes valid / invalid / longer than the coded frame, arbitrary int16 / int32 / float samples; multistream entry points '
        'with explicit layouts (1..3 streams, 0..3 coupled, input channels permuted / duplicated / unused): per-stream tuples '
        'incl. the down-mix callback applied with (c1, c2) to the caller\'s buffer; decoder: packets of '
        'six durations, PLC, FEC, buffers shorter / equal / longer than the packet, special float blocks. '
        'exhaustive: all 65536 int16 values through INT16TORES/INT16TOSIG, 256*x through INT24TORES/INT24TOSIG and '
        '(float)x/32768 through FLOAT2RES/FLOAT2SIG (thorough: also (float)x*(1/32768.f) and x itself as a 24-bit sample); '
        'stratified/random (seeded): int32 values at rounding ties of the 24-bit mantissa and boundary values through '
        'INT24TORES/INT24TOSIG; float bit patterns (any pattern, audio range, subnormals, beyond int32 after scaling, '
        'exact half-integers of the 16- and 24-bit grids, +-0, +-1, +-(1+-ulp), 32767/32768 neighbourhood, +-inf, quiet and '
        'signalling NaN; the 16-bit value of a NaN sample is not compared) through RES2INT16/RES2INT24/RES2FLOAT, 1..18-column '
        'Q15 rows x float samples (random, extreme cells, over-then-back sums that separate clamp-per-step from clamp-at-end) '
        'through mapping_matrix_multiply_channel_out_short, and arrays of them (0..700 samples) through the library\'s '
        'celt_float2int16 at every run-time arch level 0..4 (OPUS_VERIF_ARCH_CAP). A case is distinct by its '
        '(operation, outcome class) pair; outcome classes: sign of the input, finite/inf/nan, tiny/mid/sat16/indefinite24.')
NOT_COVERED = ['float_api differs by design: opus_encode / _encode24 / _encode_float pass 1 / 1 / 1, the multistream entry points '
               '0 / 0 / 1 (the model and the ties record exactly that; ms_formats_agree is stated for a common value). Packet '
               'equality therefore also needs that the float_api guard of opus_encode_frame_native (src/opus_encoder.c:1913-1924: '
               'clear the frame when the energy of the high-pass-filtered buffer is not < 1e9 or is NaN) never fires on '
               'int16-range input; the guard acts on pcm_buf after hp_cutoff / dc_reject, which is inside the un-modelled core, '
               'so this is NOT proved (for |x| <= 1 the filtered energy of <= 5760*2 samples is far below 1e9, but that '
               'is an argument, not a theorem); the S4 twin multistream search (int16 / int24 with float_api 0 against float '
               'with float_api 1) checks its consequence',
               'decoder side of the multistream clause (per-stream 24-bit = round(float*2^23), 16-bit = soft clip then '
               'saturate(round(32768*v)) through opus_multistream_decode*): no model of opus_multistream_decode_native here (the '
               'per-stream conversions are the same macros, tied by pcm-out / pcm-f2i16 / pcm-entry-dec for the single-stream '
               'entry points only); searched: S4 mode ms compares, channel by channel, int24 and int16 output with the float '
               'output through the library\'s clipper (own memory per output channel), incl. explicit layouts and resets',
               '"all three report the same sample count and final range": the C13 decoder model has neither a sample count nor '
               'rangeFinal (sample count / return value purity is C01\'s decodeNative_ret_pure; rangeFinal is an output of the '
               'un-modelled core); searched: S4 modes dec and ms require equal return values and equal OPUS_GET_FINAL_RANGE '
               'across the three entry points on every frame (and encoder == decoder final range in ms)',
               'NaN samples are outside the property: the model fixes FLOAT2INT16(NaN) = -32768 (what the code does today) but '
               'the tie does not compare it, so that reordering the two clamps is not an alarm',
               'PLC calls (NULL packet) and FEC calls (decode_fec=1) of opus_decode bypass the soft clipper in '
               'opus_decode_native (upstream behaviour: soft_clip is only applied at the end of a normal packet decode); '
               'there the search checks the weaker relation int16 = saturate(round(32768*float))',
               'the soft clipper itself (what it computes) is property C19; here it is an uninterpreted function of block '
               'and memory, and the S4 search applies the library\'s own opus_pcm_soft_clip to the float output',
               'fixed-point and ENABLE_RES24 builds (other definitions of the same macros) — only the float build of '
               'DESIGN.md section 1 is modelled',
               'floats are modelled from the IEEE-754 binary32 definition (exact operation, then round to nearest even, '
               'x86 cvtss2si integer-indefinite): that gcc/x86 implement it is trusted and re-checked bit for bit by the '
               'correspondence run']
ASSUMPTIONS = ['x86-64 SSE build in the default MXCSR rounding mode (round to nearest even, no flush-to-zero): float2int '
               'is cvtss2si', 'the caller\'s float samples x/32768 are not -0.0 for x = 0 ((float)x/32768.f never is)']
TRUSTED = ['binary32 semantics of OpusModel/Pcm.lean (value = k*2^-149, roundMag = IEEE round-to-nearest-even, '
           'mulPow2/ofScaled = exact op then one rounding): hand-written from IEEE-754, tied to gcc/x86 by the exhaustive '
           'and random differential run']

ARCHS = [0, 1, 2, 3, 4]


def _harness(ctx):
    return ctx.harness('c13_pcm', ['c13_pcm.c'], variant='san', extra=['-Wl,--wrap=run_analysis'])


def ties(ctx):
    h = _harness(ctx)
    q = ctx.quick
    s = str(ctx.seed)
    out = []
    out.append(common.run_tie('pcm-conv', [h, 'conv', '0' if q else '1']))
    out.append(common.run_tie('pcm-in24', [h, 'in24', s, '30000' if q else '1500000']))
    out.append(common.run_tie('pcm-out', [h, 'out', s, '60000' if q else '3000000']))
    for a in ARCHS:
        t = common.run_tie('pcm-f2i16-arch%d' % a, [h, 'f2i16', str(ctx.seed * 8 + a), '500' if q else '20000'],
                           env={'OPUS_VERIF_ARCH_CAP': str(a)})
        out.append(t)
    he = ctx.harness('c13_entry', ['c13_entry.c', 'c13_entry_dec.c', 'c13_entry_ms.c'], variant='san')
    out.append(common.run_tie('pcm-entry-enc', [he, 'enc', s, '1200' if q else '40000']))
    out.append(common.run_tie('pcm-entry-ms', [he, 'ms', s, '1500' if q else '50000']))
    out.append(common.run_tie('pcm-entry-dec', [he, 'dec', s, '3000' if q else '100000']))
    out.append(common.run_tie('pcm-proj', [h, 'projtie', s, '20000' if q else '800000']))
    return out


def classify(ctx, tie, mm):
    # "the code computes spec function f": the model is proved equal to the value-level specification
    # (out16Spec / out24Spec / exact x/32768), so an input on which the implementation answers differently
    # is a failing input of the property itself.
    toks = mm.get('input', '').split(' ')
    op = toks[1] if len(toks) > 1 else ''
    why = {
        'in16': 'INT16TORES/INT16TOSIG of this sample is not the exactly representable x/32768 (resp. x) that the other two '
                'entry points produce: the three formats no longer hand the encoder core the same data',
        'in24': 'INT24TORES/INT24TOSIG of this sample differs from the correctly rounded a*2^-23 (resp. a/256)',
        'inf': 'FLOAT2RES/FLOAT2SIG of this sample differs from the sample itself (resp. sample*32768 correctly rounded)',
        'out': 'RES2INT16/RES2INT24/RES2FLOAT of this float differs from saturate(round-half-even(32768*v)) / '
               'round-half-even(2^23*v) / v',
        'enc16': 'opus_encode hands opus_encode_native a different argument tuple than the one proved identical across the '
                 'three formats (encode_formats_agree): samples, frame size, analysis size, depth, down-mix or flags',
        'enc24': 'opus_encode24 hands opus_encode_native a different argument tuple than the one proved identical across the '
                 'three formats (encode_formats_agree): samples, frame size, analysis size, depth, down-mix or flags',
        'encf': 'opus_encode_float hands opus_encode_native a different argument tuple than the one proved identical across '
                'the three formats (encode_formats_agree): samples, frame size, analysis size, depth, down-mix or flags',
        'ms16': 'opus_multistream_encode hands a stream\'s opus_encode_native a different tuple (gathered samples, c1, c2, '
                'down-mix applied to the analysis buffer, depth) than the one proved identical across the three formats',
        'ms24': 'opus_multistream_encode24 hands a stream\'s opus_encode_native a different tuple (gathered samples, c1, c2, '
                'down-mix applied to the analysis buffer, depth) than the one proved identical across the three formats',
        'msf': 'opus_multistream_encode_float hands a stream\'s opus_encode_native a different tuple (gathered samples, c1, '
               'c2, down-mix applied to the analysis buffer, depth) than the one proved identical across the three formats',
        'dec16': 'opus_decode: soft_clip flag / frame size handed to opus_decode_native or the conversion applied to its output '
                 'differ from out16_spec (soft clip on, then saturate(round-half-even(32768*v)))',
        'dec24': 'opus_decode24: soft_clip flag / frame size handed to opus_decode_native or the conversion applied to its '
                 'output differ from out24_spec (no soft clip, round-half-even(2^23*v))',
        'decf': 'opus_decode_float: flags handed to opus_decode_native differ (no soft clip, output written in place)',
        'proj': 'mapping_matrix_multiply_channel_out_short (projection 16-bit output) differs from the saturating sum of the '
                'rounded Q15 products proved never to leave the int16 range',
        'projf': 'mapping_matrix_multiply_channel_out_float (projection float output) differs from the bit-exact model of '
                 '`tmp = (1/32768.f)*cell*v; out += tmp`',
        'f2i16': 'celt_float2int16 (the 16-bit output conversion of opus_decode) differs from '
                 'saturate(round-half-even(32768*v)) on some element of this array',
    }.get(op, 'conversion differs from the proved specification')
    if op == 'projf' and mm.get('impl') not in ('SANITIZER', 'ABORT', 'SIGSEGV'):
        return None     # a different but equally rounded float path is not a property violation; S4 proj judges tracking
    if mm.get('impl') in ('SANITIZER', 'ABORT', 'SIGSEGV'):
        why = 'the conversion trapped (%s) on this input' % mm.get('impl')
    elif op == 'proj' and len(toks) >= 4:
        # the property only asks for "tracks the float output within the rounding of the matrix products and
        # saturates, never wraps": clamping once at the end instead of at every step also satisfies it
        try:
            import struct
            cells = [int(x) for x in toks[2].split(',')]
            raw = bytes.fromhex(toks[3][1:])
            vs = struct.unpack('<%df' % len(cells), raw)
            s16 = [int(round(min(32767.0, max(-32768.0, v * 32768.0)))) for v in vs]
            total = sum((m * s + 16384) >> 15 for m, s in zip(cells, s16))
            got = int(re.search(r'i16=(-?\d+)', mm.get('impl', '')).group(1))
            if got == max(-32768, min(32767, total)):
                return None
        except Exception:
            pass
    return {'suite': tie.name, 'input': mm.get('input', ''), 'expected': mm.get('model'), 'observed': mm.get('impl'),
            'why': why, 'sanitizer_report': mm.get('sanitizer_report')}


SEARCH_PLAN = {   # mode: (quick cases, thorough cases)
    'enc': (500, 12000), 'dec': (500, 12000), 'ms': (160, 4000), 'proj': (120, 3000)}
ENV = {'ASAN_OPTIONS': 'detect_leaks=0:abort_on_error=0', 'UBSAN_OPTIONS': 'print_stacktrace=1'}


def _run_parallel(cmds, timeout):
    env = dict(os.environ)
    env.update(ENV)
    procs = [(name, subprocess.Popen(cmd, stdout=subprocess.PIPE, stderr=subprocess.STDOUT, text=True, env=env))
             for name, cmd in cmds]
    res = []
    for name, p in procs:
        try:
            out, _ = p.communicate(timeout=timeout)
        except subprocess.TimeoutExpired:
            p.kill()
            out, _ = p.communicate()
            out += '\nTIMEOUT'
        res.append((name, p.returncode, out))
    return res


def search(ctx):
    """Property predicates evaluated on the implementation only: twin encoders fed the three formats, twin decoders
    read through the three formats, the same through the multistream API, projection 16-bit vs float."""
    h = _harness(ctx)
    cmds = []
    for mode, (nq, nt) in SEARCH_PLAN.items():
        n = nq if ctx.quick else nt
        shards = 1 if ctx.quick else 3
        per = (n + shards - 1) // shards
        for k in range(shards):
            cmds.append(('%s/%d' % (mode, k), [h, mode, str(ctx.seed), str(per), str(k * per)]))
    wit, cases, samples, stats = [], 0, [], {}
    # at most 4 processes at a time
    for i in range(0, len(cmds), 4):
        for name, rc, out in _run_parallel(cmds[i:i + 4], 3000):
            mode = name.split('/')[0]
            got_stat = False
            for line in out.split('\n'):
                if line.startswith('W '):
                    parts = line[2:].split(' | ')
                    if len(parts) >= 5:
                        wit.append({'suite': 'pcm-search-' + parts[0], 'input': parts[1], 'expected': parts[2],
                                    'observed': parts[3], 'why': parts[4]})
                elif line.startswith('STAT '):
                    got_stat = True
                    for kv in line[5:].split(' '):
                        k, _, v = kv.partition('=')
                        try:
                            x = float(v)
                        except ValueError:
                            continue
                        key = mode + '.' + k
                        if k.startswith('worst'):
                            stats[key] = max(stats.get(key, 0), x)
                        else:
                            stats[key] = stats.get(key, 0) + x
                        if k == 'cases':
                            cases += int(x)
            if rc != 0 or not got_stat:
                tail = [l for l in out.split('\n') if 'runtime error' in l or 'ERROR: AddressSanitizer' in l
                        or l.startswith('SUMMARY') or l.startswith('O ABORT') or 'TIMEOUT' in l]
                wit.append({'suite': 'pcm-search-' + mode, 'input': 'c13_pcm ' + ' '.join(dict(cmds)[name][1:]),
                            'expected': 'the three entry points run to completion without sanitizer report / abort',
                            'observed': '; '.join(tail[:4]) or ('exit code %s: %s' % (rc, out[-400:])),
                            'why': 'the implementation trapped (out-of-bounds access, undefined behaviour such as a wrapping '
                                   'conversion, or assertion) while running the format comparison'})
    samples.append('search seed %d: %s' % (ctx.seed, ', '.join('%s=%g' % kv for kv in sorted(stats.items()))))
    return {'cases': cases, 'distinct': len(SEARCH_PLAN),
            'oracle': 'on the real library (ASan+UBSan build): (enc) three encoders with identical settings and '
                      'lsb_depth 8..16 fed int16 / 256*int16 / int16/32768 give byte-identical packets and final ranges, '
                      'frame by frame, over rates x channels x applications x bitrates x complexity x VBR/CVBR/FEC/DTX x '
                      'frame sizes 2.5..60 ms x tone/noise/bursts/full-scale/silence, 40 % of the configurations with '
                      'OPUS_SET_EXPERT_FRAME_DURATION fixed and the buffer handed in longer than the coded frame (look-ahead for '
                      'the analysis, caller advancing by the coded duration; biased to complexity >= 7, Fs >= 16 kHz); (dec) three decoders (any rate / '
                      'channel count) on the same packets incl. lost frames and FEC, 45 % of the streams with OPUS_RESET_STATE on all '
                      'three at random frame boundaries (reference soft-clip memory cleared at the same points; biased to loud '
                      'low-frequency content so that the clipper carries state across the boundary): equal sample counts and final ranges, '
                      'int24 == rint(float*2^23), int16 == saturate(rint(32768*softclip(float))) with the library\'s own '
                      'opus_pcm_soft_clip and an independent double-precision reference conversion; (ms) half of the configurations with EXPLICIT layouts (input channels permuted — a coupled stream whose right channel is input 0 —, duplicated, unused), every input channel carrying different content, biased to complexity >= 7 / Fs >= 16 kHz; both relations '
                      'through the multistream API (families 0/1/255, 1..8 channels) channel by channel; (proj) projection '
                      'decoder: int16 output == saturating sum of the rounded Q15 matrix products of the soft-clipped 16-bit '
                      'stream samples (never a wrapped value) and |int16 - 32768*float| <= streams+0.5 LSB when nothing clipped',
            'stats': stats, 'samples': samples, 'witnesses': wit[:10]}


def replay(ctx, obj):
    """Re-run the recorded input: a tie line (`pcm ...`) on implementation and model, or a search case
    (`c13_pcm <mode> <seed>: case <c> ...`) on the implementation alone."""
    h = _harness(ctx)
    items = [obj] + list(obj.get('other_witnesses', []))
    lines = [w.get('input', '') for w in items if w.get('input', '').startswith('pcm ')]
    entry = [l for l in lines if l.split(' ')[1] in ('enc16', 'enc24', 'encf', 'dec16', 'dec24', 'decf', 'ms16', 'ms24', 'msf')]
    lines = [l for l in lines if l not in entry]
    if entry:
        # entry-point lines carry random samples generated by the harness; re-run those ties as a whole
        he = ctx.harness('c13_entry', ['c13_entry.c', 'c13_entry_dec.c', 'c13_entry_ms.c'], variant='san')
        common.lake_build(['opusmodel'])
        for mode, n in (('enc', '1200'), ('ms', '1500'), ('dec', '3000')):
            t = common.run_tie('pcm-entry-' + mode, [he, mode, str(obj.get('seed', 1)), n])
            print('entry-point tie %s: %d cases, %d mismatches %s' % (mode, t.cases, t.n_mismatch, t.error or ''))
            for mm in t.mismatches[:2]:
                print('  input: %s\n  impl:  %s\n  model: %s' % (mm.get('input', '')[:200], mm.get('impl', '')[:200], mm.get('model', '')[:200]))
            if t.n_mismatch or t.error:
                return_bad = True
                print('VIOLATION property=C13 replay reproduced (entry-point tie %s)' % mode)
                return 1
    cases = [re.match(r'c13_pcm (\w+) (\d+): case (\d+)', w.get('input', '')) for w in items]
    cases = [m for m in cases if m]
    bad = 0
    if lines:
        lines = [' '.join(l.split(' ')[:6]) for l in lines]
        common.lake_build(['opusmodel'])
        env = dict(ENV)
        m = re.search(r'arch(\d)', obj.get('suite', ''))
        if m:
            env['OPUS_VERIF_ARCH_CAP'] = m.group(1)
        rc, out = common.sh([h, 'stdin'], input='\n'.join(lines) + '\n', env=env)
        impl = [l[2:] for l in out.split('\n') if l.startswith('O ')]
        model = common.model_eval(lines)
        for i, l in enumerate(lines):
            a = impl[i] if i < len(impl) else '(no answer)'
            print('input: %s\n  impl:  %s\n  model: %s' % (l[:300], a[:300], (model[i] if i < len(model) else '')[:300]))
            if i >= len(impl) or a != model[i]:
                bad += 1
    for m in cases[:6]:
        rc, out = common.sh([h, m.group(1), m.group(2), '1', m.group(3)], env=ENV)
        ws = [l for l in out.split('\n') if l.startswith('W ')]
        print('search case: c13_pcm %s %s 1 %s -> %s' % (m.group(1), m.group(2), m.group(3),
                                                         ws[0] if ws else ('exit %d, no witness' % rc)))
        if ws or rc != 0:
            bad += 1
    if not lines and not cases:
        print('replay: nothing to re-run in %s; re-running the whole check' % obj.get('kind'))
        import sys
        os.execv(sys.executable, [sys.executable, os.path.join(common.VERIF, 'tools', 'check.py'), ctx.prop,
                                  '--tier', obj.get('tier', 'quick')])
    if bad:
        print('VIOLATION property=C13 replay reproduced (%d input(s) still fail)' % bad)
        return 1
    print('replay: the recorded input(s) no longer fail')
    return 0


LEVEL_TEXT = ('proof: bit-exact Lean model of the float-build sample conversions (INT16TORES, INT24TORES, FLOAT2RES, '
              'INT16TOSIG, INT24TOSIG, FLOAT2SIG, RES2INT16 = FLOAT2INT16, RES2INT24, RES2FLOAT, celt_float2int16) on '
              'binary32 bit patterns with kernel-checked theorems for all inputs: the three input conversions of every int16 '
              'sample are the same bits with exactly the value x/32768 (and the analysis down-mix sees exactly x), hence '
              'the three encoder entry points hand any shared core identical arguments when lsb_depth <= 16; RES2INT24 = '
              'round-half-even(v*2^23) (integer-indefinite outside int32), FLOAT2INT16 = saturate(round-half-even(v*2^15)) '
              'for every bit pattern incl. NaN/inf, never outside int16; round trips are the identity; model tied to the '
              'code by an exhaustive (int16) and random (float patterns, every arch level) differential run under '
              'ASan/UBSan. The end-to-end relations (identical packets; 24-bit/16-bit output vs. float output; multistream; '
              'projection saturation/tracking) are searched on the implementation (S4), not proved.')
LEVEL_NOTE = ('trusted: Lean kernel; the IEEE-754 binary32 semantics written into the model (re-checked bit for bit against '
              'gcc/x86 on every run); the correspondence harness and line protocol. Not proved: projection 16-bit tracking '
              '(P1, searched only); determinism of the shared core as a function of its arguments (C12).')
TECHNIQUE = 'Lean 4 theorems over an exact binary32 model + exhaustive/random differential correspondence + twin-codec search'
