"""C18 extension, slice Stereo — the SILK mid/side predictor side information (silk/stereo_quant_pred.c,
silk/stereo_encode_pred.c, silk/stereo_decode_pred.c): quantiser, symbols and dequantiser as an exact Lean model with
theorems for every opus_int32 predictor pair, tied to the real functions through the real range coder."""
import os, re, subprocess
import common

LEAN_MODULES = ['OpusProps.C18Stereo']
GEN = ['SilkStereoTabs']
SOURCES = ['silk/stereo_find_predictor.c', 'silk/stereo_LR_to_MS.c', 'silk/Inlines.h', 'silk/sum_sqr_shift.c', 'silk/inner_prod_aligned.c',
           'silk/tuning_parameters.h', 'silk/stereo_quant_pred.c', 'silk/stereo_encode_pred.c', 'silk/stereo_decode_pred.c', 'silk/tables_other.c',
           'silk/tables.h', 'silk/define.h', 'silk/macros.h', 'silk/SigProc_FIX.h', 'silk/typedef.h']
RULE = ('silk_stereo_find_predictor on random / correlated / extreme / zero-basis int16 vectors (lengths 1..320) with random '
        'smoothing state; sequences of 2..8 consecutive real silk_stereo_LR_to_MS calls (8 signal classes: independent, amplitude '
        'panned, phase inverted, silence, one silent channel, clipping, nearly mono, changing; fs 8/12/16 kHz, 10/20 ms, 6..64 kb/s, '
        'random speech activity, toMono; reset / mid-run / arbitrary int16 width state) with the values recorded at its callees; '
        'silk_stereo_encode_mid_only round trips; silk_stereo_quant_pred on predictor pairs drawn from: the range silk_stereo_find_predictor can return, the 75 levels '
        '+-2, the exact mid-points between neighbouring levels +-1, the table entries +-1, fixed boundary values (0, +-2^14, '
        'int16 / int32 extremes), the neighbourhood of the largest defined input, the bottom of the int32 range and uniform '
        'int32 values, with ix pre-filled (sentinel / random); silk_stereo_decode_pred on ALL 25*3*5*3*5 index tuples; '
        'quantise -> silk_stereo_encode_pred -> ec_enc_done -> silk_stereo_decode_pred on random buffer sizes 4..24; index '
        'arrays through silk_stereo_encode_pred incl. one beyond its assert bound; a case is distinct by (op, outcome kind)')
NOT_COVERED = ['the sample loops in front of the modelled integer code — the mid/side conversion and the LP/HP filters of '
               'silk_stereo_LR_to_MS, silk_sum_sqr_shift and silk_inner_prod_aligned_scale inside silk_stereo_find_predictor — are '
               'inputs of the model (their results are universally quantified in encoder_pred_in_domain, and obtained from the '
               'library in the tie); the side-channel prediction loops after silk_stereo_quant_pred and silk_stereo_MS_to_LR are '
               'other slices',
               'that the plain int additions / subtractions of stereo_find_predictor.c:67-73 do not overflow is not proved (the model '
               'reduces them mod 2^32; the tie runs under UBSan); the bound [-2^15, 2^15] on the pair '
               'holds for ANY opus_int16 width state; [-2^14, 2^14] and the width invariant are proved for prev_speech_act_Q8 in [0, 255] '
               '(that the caller passes such a value is not part of this slice)',
               'inputs above silk_int32_MAX - 13365 (13 365 values per predictor): `pred_Q13[n] - lvl_Q13` overflows opus_int32 '
               '(undefined behaviour), the model answers UB and the harness does not call the library on them; the encoder never '
               'produces them (encoder_pred_in_domain)',
               'negative entries of ix handed to silk_stereo_encode_pred (its asserts bound from above only) are outside the tie; '
               'the quantiser is proved never to produce them',
               'the mid-only round trip is proved on a fresh range coder (position-independence of ec_enc_icdf / ec_dec_icdf is C08); '
               'the silent_side_len logic that may clear *mid_only_flag afterwards (stereo_LR_to_MS.c:181-191) is not modelled']
ASSUMPTIONS = ['pred_Q13 points to two opus_int32, ix to opus_int8[2][3] (the harness uses stack objects under ASan)',
               'the range coder itself (ec_enc_icdf / ec_dec_icdf / ec_enc_done) is property C08; the round trip theorem of this '
               'slice is about the index arithmetic on both sides, the range coder is exercised by the tie']
LEVEL_TEXT = ('exact executable Lean model of silk_stereo_quant_pred, of the symbols silk_stereo_encode_pred writes and of the '
              'dequantiser of silk_stereo_decode_pred over the regenerated tables; theorems for ALL opus_int32 predictor pairs of '
              'the defined domain [-2^31, 2^31-1-13365]: the search terminates with every index in range (no celt_assert, every '
              'symbol inside its iCDF table), the decoder rebuilds exactly the quantised pair the encoder keeps, the quantiser is '
              'a nearest-level search (error <= 368 inside the span [-13364, 13362], saturation outside); for every index tuple '
              'the symbol layer can decode - and for every state of the range decoder - the predictors lie in [-26726, 26726] x [-13364, 13362]; tied by exact comparison '
              '(quantiser, exhaustive decoder, round trip bytes through the real range coder) under ASan/UBSan and plain')
LEVEL_NOTE = ('trusted: Lean kernel; harness and line protocol; the reading of silk_SMULWB / silk_SMLABB / silk_abs / '
              'silk_DIV32_16 (OpusModel/SilkParams/Fix.lean conventions); the nested-loop transcription (OpusModel/SilkStereoLoops.lean) '
              'is proved equal to the scan the theorems use, the tie runs the scan form')
TECHNIQUE = 'Lean 4 theorems over an executable model + differential correspondence + implementation-only search'

REQUIRED_THEOREMS = ['OpusProps.C18Stereo.table_facts', 'OpusProps.C18Stereo.quant_indices_in_range', 'OpusProps.C18Stereo.enc_dec_agree', 'OpusProps.C18Stereo.quant_nearest', 'OpusProps.C18Stereo.quant_error_bound', 'OpusProps.C18Stereo.dequant_in_range', 'OpusProps.C18Stereo.dequant_in_range_any_state', 'OpusProps.C18Stereo.mid_only_flag_binary', 'OpusProps.C18Stereo.encoder_pred_in_domain', 'OpusProps.C18Stereo.encoder_width_invariant', 'OpusProps.C18Stereo.encoder_stereo_symbols_valid', 'OpusProps.C18Stereo.mid_only_round_trip', 'OpusProps.C18Stereo.nested_loops_are_scan', 'OpusProps.C18Stereo.domain_exact']
UNPROVED = []


def _wait_driver(secs=120):
    import time
    t0 = time.time()
    while not os.path.exists(common.driver_path()) and time.time() - t0 < secs:
        time.sleep(2)
    if not os.path.exists(common.driver_path()):
        common.lake_build(['opusmodel'])


def _h(ctx, variant):
    return ctx.harness('c18_stereo' + ('' if variant == 'plain' else '_' + variant), ['c18_stereo.c'], variant=variant)


def _he(ctx, variant):
    return ctx.harness('c18_stereoenc' + ('' if variant == 'plain' else '_' + variant), ['c18_stereoenc.c'], variant=variant)


def ties(ctx):
    hs = _h(ctx, 'san')
    hp = _h(ctx, 'plain')
    es = _he(ctx, 'san')
    ep = _he(ctx, 'plain')
    _wait_driver()
    n = 6000 if ctx.quick else 150000
    specs = [('stereo-tabs', [hp, 'tabs']),
             ('stereo-quant-san', [hs, 'quant', str(ctx.seed), str(n)]),
             ('stereo-quant-plain', [hp, 'quant', str(ctx.seed + 7919), str(n)]),
             ('stereo-dec-san', [hs, 'dec']),
             ('stereo-dec-plain', [hp, 'dec']),
             ('stereo-rt-san', [hs, 'rt', str(ctx.seed), str(n // 3)]),
             ('stereo-rt-plain', [hp, 'rt', str(ctx.seed + 104729), str(n // 3)]),
             ('stereo-syms-plain', [hp, 'syms', str(ctx.seed), '300']),
             ('stereo-findpred-san', [es, 'find', str(ctx.seed), str(n // 2)]),
             ('stereo-findpred-plain', [ep, 'find', str(ctx.seed + 31337), str(n // 2)]),
             ('stereo-lr-san', [es, 'lr', str(ctx.seed), str(n // 12)]),
             ('stereo-lr-plain', [ep, 'lr', str(ctx.seed + 271828), str(n // 12)]),
             ('stereo-midonly', [es, 'midonly'])]
    return common.run_ties_parallel(specs, workers=4)


def classify(ctx, tie, mm):
    # C18: the side information dequantises to in-range parameters and the encoder's own quantised values are the ones the
    # decoder reconstructs.  The Lean model is proved to have both properties for every input, so an input on which the
    # library answers differently from the model either leaves the proved ranges or breaks encoder/decoder agreement.
    impl = mm.get('impl', '')
    why = ('the SILK stereo predictor quantiser / symbol writer / dequantiser differs from the exact reference for which index '
           'ranges, predictor ranges and encoder-decoder agreement are proved')
    if impl in ('SANITIZER', 'ABORT', 'SIGSEGV'):
        why = 'the stereo predictor code trapped (%s) on an input the reference processes with all indices in range' % impl
    return {'suite': tie.name, 'input': mm.get('input', ''), 'expected': (mm.get('model') or '')[:600],
            'observed': impl[:600], 'why': why}


def search(ctx):
    """Predicates on the implementation alone (no model)."""
    n = 20000 if ctx.quick else 600000
    wit, cases, samples = [], 0, []
    for variant, which in (('san', 'q'), ('plain', 'q'), ('san', 'lr'), ('plain', 'lr')):
        if which == 'q':
            h = _h(ctx, variant)
            cmd = [h, 'search', str(ctx.seed + (0 if variant == 'san' else 15485863)), str(n)]
        else:
            h = _he(ctx, variant)
            cmd = [h, 'lr', str(ctx.seed + (5 if variant == 'san' else 6700417)), str(n // 20), 'search']
        env = dict(os.environ)
        env.setdefault('ASAN_OPTIONS', 'detect_leaks=0:abort_on_error=0')
        p = subprocess.run(cmd, stdout=subprocess.PIPE, stderr=subprocess.STDOUT, text=True, env=env, timeout=3000)
        got = False
        for line in p.stdout.split('\n'):
            if line.startswith('W '):
                m = re.match(r'W (\w+) (.*) => (.*)$', line)
                if m:
                    wit.append({'suite': 'stereo-search-' + m.group(1), 'input': m.group(2)[:2000],
                                'expected': {'ixrange': 'ix[n][0] in [0,2], ix[n][1] in [0,STEREO_QUANT_SUB_STEPS), ix[n][2] in [0,4]',
                                             'nearest': 'the quantised predictor is the level nearest to the input (ties to the lower level)',
                                             'range': 'the quantised predictor lies inside the span of the levels',
                                             'saturate': 'inputs outside the span map to the end levels',
                                             'agree': 'silk_stereo_decode_pred rebuilds exactly the pair silk_stereo_quant_pred left in pred_Q13',
                                             'levels': 'the 75 levels are strictly increasing',
                                             'bound': 'every pair silk_stereo_LR_to_MS hands to silk_stereo_quant_pred lies in [-32768, 32768] (OpusProps.C18Stereo.encoder_pred_in_domain)',
                                             'calls': 'exactly two silk_stereo_find_predictor calls and one silk_stereo_quant_pred call per frame'}.get(m.group(1), ''),
                                'observed': m.group(3), 'why': 'stereo predictor predicate `%s` fails on the implementation' % m.group(1)})
                else:
                    wit.append({'suite': 'stereo-search', 'input': line[2:200], 'expected': 'inside-span error at most half of the largest level gap',
                                'observed': line[2:], 'why': 'stereo predictor error bound fails on the implementation'})
            elif line.startswith('S '):
                got = True
                samples.append('%s seed %d: %s' % (variant, ctx.seed, line[2:]))
                mm = re.search(r'cases=(\d+)', line)
                cases += int(mm.group(1)) if mm else 0
        if p.returncode != 0 or not got:
            tail = [l for l in p.stdout.split('\n') if 'runtime error' in l or 'ERROR: AddressSanitizer' in l
                    or l.startswith('SUMMARY') or l.startswith('O ABORT')]
            wit.append({'suite': 'stereo-search', 'input': 'c18_stereo ' + ' '.join(cmd[1:]),
                        'expected': 'the search runs to completion without sanitizer report / abort',
                        'observed': '; '.join(tail[:4]) or ('exit code %s: %s' % (p.returncode, p.stdout[-400:])),
                        'why': 'the stereo predictor code trapped (out-of-bounds access, undefined behaviour or assertion)'})
    return {'cases': cases, 'distinct': 6,
            'oracle': 'on the real library (ASan+UBSan and plain build), for predictor pairs of the defined domain (same classes as '
                      'the tie): every ix entry in range; the quantised value is the nearest of the 75 levels computed with the '
                      'library macros from the library table; inside the span, saturated to the end levels outside; inside-span '
                      'error at most half of the largest gap; silk_stereo_encode_pred -> ec_enc_done -> silk_stereo_decode_pred '
                      'gives back exactly the pair the quantiser left in pred_Q13; on sequences of real silk_stereo_LR_to_MS calls (synthetic '
                      'stereo signals, all rates, 6..64 kb/s) the pair recorded at the call of silk_stereo_quant_pred lies in the proved range',
            'samples': samples, 'witnesses': wit[:10]}
