"""C05 — encoder honours the buffer limit, exact CBR size and the bitrate target (DESIGN.md §7.C05)."""
import json, os, re
from fractions import Fraction
import common

LEAN_MODULES = ['OpusProps.C05']
EXTENSIONS = ['C05ranges']   # extension slices merged into this property's check (tools/EXT_BRIEF.md)
GEN = ['EncTables']
SOURCES = ['celt/celt.h', 'src/opus_encoder.c', 'src/repacketizer.c', 'src/opus.c', 'src/opus_private.h', 'src/opus_multistream_encoder.c',
           'src/opus_projection_encoder.c', 'src/analysis.c', 'celt/celt_encoder.c', 'celt/entenc.c', 'celt/entcode.h',
           'silk/enc_API.c', 'silk/control.h', 'silk/define.h', 'include/opus.h', 'include/opus_defines.h']
RULE = ('wrapped real encoder (harness #includes src/opus_encoder.c and records every inner call): random ctl/encode '
        'histories (Fs x channels x application x 9 durations x int16/int24/float x 8 signal kinds incl. NaN/Inf/huge) with '
        'out_data_bytes from boundary sets and 1..4000 and bit-rates from boundary sets, log-uniform 500..512000, AUTO and MAX; '
        'a sweep of out_data_bytes x bit-rate x duration x VBR/CVBR/CBR cells; long frames x high rates x consecutive '
        'out_data_bytes; multi-frame VBR packets with sub-frames >= 253 bytes and max_data_bytes swept +-8 around the size of a '
        'probe packet (nearly full budget); multistream/projection sessions and, for 7 layouts, max_data_bytes 1..600 '
        'exhaustively at high rates (CBR also with OPUS_AUTO); the multistream rate allocation on a grid layouts (all '
        '(streams, coupled) up to 5 / 24 streams plus large ones up to 255, with and without LFE, surround and ambisonics) x 5 rates x 9 '
        'frame sizes x ~37 bit-rate settings (AUTO, MAX, ctl bounds, thresholds where the offsets are just covered +-1, log-spaced), on '
        'encoders from every create function, and on explicit mappings with up to 255 input channels; constrained-VBR runs of 8 s after setting histories (speech phase / forced hybrid or SILK '
        'frames / random ctl) incl. a fixed share of hybrid-history -> CELT-only music runs; the skeleton '
        'replays each recorded call from pre-state + oracles and must reproduce return value, packet structure, post-state and '
        'every inner call with its arguments. A case is distinct by (op, outcome kind).')
NOT_COVERED = ['convergence of the constrained-VBR control loop (signal dependent): only searched with a calibrated tolerance '
               '(tools/calibration_C05.json), never proved',
               'interiors of silk_Encode / celt_encode_with_ec / the range coder: oracles under the contracts of '
               'OpusModel/EncSkel/Frame.lean (monitored on every recorded call); that they write only inside the buffer handed to '
               'them is checked by ASan / guard bytes on explored inputs only',
               'multistream: the surround masking analysis (float) and the per-stream bandwidth / force-mode ctls of '
               'opus_multistream_encode_native:899-922 are not modelled; the rate allocation (MsRate.lean, tie ops msrate / msuser / '
               'msctl) and the per-stream budget split (msCurrMax / msMaxBytesAlloc, tie op mscurr3) are',
               'DRED / QEXT / fixed-point builds are not compiled in this configuration']
ASSUMPTIONS = ['the data pointer addresses out_data_bytes writable bytes and pcm holds frame_size*channels samples',
               'settings reach the encoder only through opus_encoder_ctl (stOk: the C11 ctl invariant), frame sizes through '
               'frame_size_select']
TRUSTED = ['oracle contracts of OpusModel/EncSkel/Frame.lean (silk_Encode returns 0 and nBytes >= 0; ec_tell monotone with '
           'bit_logp(12)/bit_logp(1)/uint(256) costing at most 12/1/8 bits; 8*(offs+end_offs)+1 <= ec_tell; '
           'celt_encode_with_ec returns 0..nbCompressedBytes for >= 2 bytes and < 0 below; SILK keeps its internal rate inside '
           'a packet; with VBR off the main celt_encode_with_ec call returns exactly nbCompressedBytes) — assumed by the '
           'theorems, monitored by the tie on every recorded call',
           'multistream theorems (ms_encode_ret_le_out, _alloc) are stated over property C10\'s model Opus.MsEncode (stream loop + '
           'C07 repacketiser model, tied by C10\'s msenc suite) for EVERY per-stream encoder within EncContract (a successful call '
           'returns a valid packet of the common duration in <= curr_max bytes) and EncLive (a call with a legal budget succeeds); '
           'both are theorems for the encoder skeleton (ms_encode_ret_le_out_skel), i.e. rest on the oracle contracts above; for '
           'OPUS_AUTO the composition msEncodeAlloc = entry test + C10 loop on msMaxBytesAlloc is not executed as a whole by the '
           'driver: its clamp value and every per-stream curr_max are tied by suite op mscurr3, its loop by C10',
           'repacketiser contract functions of OpusModel/EncSkel/Repack.lean (return values and header bytes compared with the '
           'real opus_packet_pad / opus_repacketizer_cat / out_range_impl on every recorded call)']
REQUIRED_THEOREMS = ['OpusProps.C05.' + t for t in (
    'cbrBytes_spec', 'ret_le_out', 'cbr_size_exact', 'bitrate_max_fills', 'too_small_clean', 'never_internal_error',
    'stOk_preserved', 'stOk_along_histories', 'encode_keeps_encInv', 'ms_encode_ret_le_out', 'cvbr_reservoir_bounded',
    'cvbr_average_bound', 'ms_rate_floor', 'ms_rate_sum', 'ms_rate_no_overflow', 'ms_encode_ret_le_out_alloc',
    'ms_encode_ret_le_out_skel')]
UNPROVED = ['range lemmas "no 32-bit overflow" for the budget arithmetic (model uses unbounded Int; products stay below 2^31 for '
            'Fs <= 48000, bit-rate <= 1.5e6, out_data_bytes clamped to 1276 — covered by UBSan on explored inputs only)',
            'that the float-driven CVBR target makes the average APPROACH the requested rate (only the upper bound '
            'cvbr_average_bound is a theorem; CELT-only frames; hybrid frames run unconstrained by design)']
CAL = json.load(open(os.path.join(common.VERIF, 'tools', 'calibration_C05.json')))
SAN_EXTRA = ['-fno-sanitize=float-cast-overflow']   # DESIGN §9 O1: (int)floor(NaN) at opus_encoder.c:1226 is benign


def _h(ctx, variant, name='c05_encsize'):
    """Compile the harness against the library built from the tree under test.  The library cache is shared with other
    checks and pruned by them; if the cached build vanished under us, rebuild once."""
    for attempt in (0, 1):
        try:
            return ctx.harness(name, [name + '.c'], variant=variant, extra=SAN_EXTRA if variant == 'san' else [])
        except RuntimeError:
            if attempt:
                raise
            ctx._libs.pop(variant, None)
            import shutil
            shutil.rmtree(os.path.join(common.CACHE, 'lib', '%s-%s' % (common.repo_hash(), variant)), ignore_errors=True)


def ties(ctx):
    q, s = ctx.quick, ctx.seed
    hs = _h(ctx, 'san')
    out = []
    out.append(common.run_tie('encskel-rand', [hs, 'rand', str(s), '1200' if q else '12000']))
    out.append(common.run_tie('encskel-sweep', [hs, 'sweep', str(s), '0' if q else '1']))
    out.append(common.run_tie('encskel-fill', [hs, 'fill', str(s), '0' if q else '1']))
    if not q:
        out.append(common.run_tie('encskel-bound', [hs, 'bound', str(s), '1']))
    out.append(common.run_tie('encskel-ms', [hs, 'ms', str(s), '120' if q else '1500']))
    out.append(common.run_tie('encskel-mssweep', [_h(ctx, 'plain'), 'mssweep', str(s), '0' if q else '1']))
    out.append(common.run_tie('encskel-cvbr', [_h(ctx, 'san', 'c05_cvbr'), 'run', str(s), '60' if q else '1200']))
    hm = _h(ctx, 'san', 'c05_msrate')
    out.append(common.run_tie('encskel-msrate-grid', [hm, 'grid', '0' if q else '1']))
    out.append(common.run_tie('encskel-msrate-api', [hm, 'api', str(s), '60' if q else '600']))
    out.append(common.run_tie('encskel-msrate-generic', [hm, 'generic', str(s), '40' if q else '400']))
    out.append(common.run_tie('encskel-msrate-corpus', [hm, 'corpus', os.path.join(common.VERIF, 'corpus', 'C05', 'msrate_cases.txt')]))
    out.append(common.run_tie('encskel-silkrate', [hs, 'silkrate']))
    out.append(common.run_tie('encskel-gentoc', [hs, 'gentoc']))
    if not q:
        hf = _h(ctx, 'fuzzing')
        out.append(common.run_tie('encskel-fuzzing', [hf, 'rand', str(s + 77), '6000']))
    for t in out:
        for n in t.notes:
            m = re.search(r'guard_overwritten=(\d+)', n)
            if m and int(m.group(1)):
                t.error = (t.error or '') + ' guard bytes after data[max_data_bytes] overwritten'
    return out


# ------------------------------------------------------------------ the property predicate on the implementation

def _spf(cfg, fs):
    """opus_packet_get_samples_per_frame (RFC 6716 table 2) — independent of the Lean model."""
    c = cfg >> 3
    if c < 12:
        return [fs // 100, fs // 50, fs // 25, fs * 3 // 50][c & 3]
    if c < 16:
        return [fs // 100, fs // 50][c & 1]
    return [fs // 400, fs // 200, fs // 100, fs // 50][c & 3]


def _kv(line):
    d = {}
    for t in line.split(' '):
        if '=' in t:
            k, v = t.split('=', 1)
            d[k] = v
    return d


def cbr_expected(fs, ch, user_bitrate, frame, out):
    m = min(1276, out)
    if user_bitrate == -1000:
        b = 60 * fs // frame + fs * ch
    elif user_bitrate == -1:
        b = m * 8 * fs // frame
    else:
        b = user_bitrate
    r = (Fraction(b * frame, fs * 8) + Fraction(1, 2)).__floor__()
    return max(1, min(r, m))


LEGAL = lambda fs, f: f > 0 and any(f * a == fs * b for a, b in ((400, 1), (200, 1), (100, 1), (50, 1), (25, 1), (50, 3), (50, 4), (50, 5), (50, 6)))


def check_case(inp, impl):
    """C05 evaluated on what the implementation returned for this call.  Returns None or (expected, why)."""
    if impl in ('SANITIZER', 'ABORT', 'SIGSEGV'):
        return ('encode call returns', 'the encode call trapped (%s: write past max_data_bytes, undefined behaviour or a '
                'hardening assertion)' % impl)
    i, o = _kv(inp), _kv(impl)
    try:
        st = [int(x) for x in i['st'].split(',')]
        frame, out, ret = int(i['frame']), int(i['out']), int(o['ret'])
    except (KeyError, ValueError):
        return None
    fs, ch, vbr, ubr, dtx = st[0], st[1], st[3], st[4], st[11]
    if frame <= 0 or out <= 0 or not LEGAL(fs, frame):
        return None if ret == -1 else ('OPUS_BAD_ARG', 'invalid arguments not refused with OPUS_BAD_ARG (ret=%d)' % ret)
    if min(1276, out) == 1 and fs == frame * 10:
        return None if ret == -2 else ('OPUS_BUFFER_TOO_SMALL', '100 ms in one byte not refused (ret=%d)' % ret)
    if not (1 <= ret <= out):
        return ('1 <= ret <= out_data_bytes=%d' % out, 'return value %d outside 1..out_data_bytes' % ret)
    lens = o.get('lens', '')
    if lens.startswith('UNPARSEABLE'):
        return ('a well-formed packet', 'the returned packet does not parse (%s)' % lens)
    ls = [int(x) for x in lens.split(',')] if lens not in ('', '-') else []
    cfg = int(o.get('cfg', '0'))
    if len(ls) * _spf(cfg, fs) != frame:
        return ('packet duration %d samples' % frame, 'packet announces %d x %d samples' % (len(ls), _spf(cfg, fs)))
    if vbr == 0:
        exp = cbr_expected(fs, ch, ubr, frame, out)
        allzero = all(x == 0 for x in ls)
        if ret != exp:
            if ubr == -1 and len(ls) > 1 and not allzero and ret == out:
                return None                      # OPUS_BITRATE_MAX, repacketised multi-frame packet: fills the buffer
            if dtx and allzero and ret <= 2:
                return None                      # DTX packet
            return ('CBR packet of exactly %d bytes' % exp, 'CBR packet has %d bytes, expected round(bitrate*T/8) clipped = %d' % (ret, exp))
    return None


def _tdiv(a, b):
    """C integer division (truncation toward zero)."""
    q = abs(a) // abs(b)
    return q if (a >= 0) == (b > 0) else -q


def ms_alloc(fs, fsz, n, c, lfe, amb, br):
    """rate_allocation of src/opus_multistream_encoder.c:668-798 in exact integer arithmetic (independent of the Lean
    model): (rate_sum, per-stream rates)."""
    if amb:
        if br == -1000:
            total = (c + n) * (fs + 60 * fs // fsz) + n * 15000
        elif br == -1:
            total = (n + c) * 320000
        else:
            total = br
        rates = [_tdiv(total, n)] * n
    else:
        nlfe = 1 if lfe != -1 else 0
        unc = n - c - nlfe
        nn = 2 * c + unc
        co = 40 * max(50, fs // fsz)
        if br == -1000:
            b = nn * (co + fs + 10000) + 8000 * nlfe
        elif br == -1:
            b = nn * 300000 + nlfe * 128000
        else:
            b = br
        lo = min(_tdiv(b, 20), 3000) + 15 * max(50, fs // fsz)
        so = max(0, min(20000, _tdiv(_tdiv(b - co * nn - lo * nlfe, nn), 2)))
        total = (unc << 8) + 512 * c + nlfe * 32
        cr = _tdiv(256 * (b - lo * nlfe - so * (c + unc) - co * nn), total)
        rates = []
        for i in range(n):
            if i < c:
                rates.append(2 * co + max(0, so + ((cr * 512) >> 8)))
            elif i != lfe:
                rates.append(co + max(0, so + cr))
            else:
                rates.append(max(0, lo + ((cr * 32) >> 8)))
    rates = [max(r, 500) for r in rates]
    return sum(rates), rates


def _scan_msrate(inp, impl, suite, cmd, wit, stats):
    t = inp.split(' ')
    try:
        vals = [int(x) for x in t[2:]]
    except ValueError:
        return
    if impl in ('SANITIZER', 'ABORT', 'SIGSEGV'):
        if len(wit) < 10:
            wit.append({'suite': suite, 'input': inp, 'command': cmd, 'expected': 'rate_allocation returns',
                        'observed': impl, 'why': 'the multistream rate allocation trapped (undefined behaviour: 32-bit overflow)'})
        return
    d = _kv(impl)
    if t[1] == 'msrate' and len(vals) == 7:
        stats['msrate'] = stats.get('msrate', 0) + 1
        esum, erates = ms_alloc(*vals)
        try:
            got = [int(x) for x in d['r'].split(',')]
            gsum = int(d['sum'])
        except (KeyError, ValueError):
            return
        if (gsum, got) != (esum, erates) and len(wit) < 10:
            k = [i for i in range(len(got)) if i >= len(erates) or got[i] != erates[i]]
            wit.append({'suite': suite, 'input': inp, 'command': cmd,
                        'expected': 'sum=%d r=%s' % (esum, ','.join(map(str, erates[:16]))),
                        'observed': 'sum=%d r=%s' % (gsum, ','.join(map(str, got[:16]))),
                        'why': 'rate_allocation differs from the exact integer evaluation of its own formulas (stream %s): a 32-bit '
                               'intermediate overflowed (channel_rate*coupled_ratio / channel_rate*lfe_ratio, '
                               'opus_multistream_encoder.c:729/:733)' % (k[:1] or ['sum'])[0]})
    elif t[1] == 'msuser' and len(vals) == 8:
        stats['msuser'] = stats.get('msuser', 0) + 1
        _, erates = ms_alloc(*vals[:7])
        i = vals[7]
        exp = min(300000 * (2 if i < vals[3] else 1), max(500, erates[i]))
        try:
            got = int(d['v'])
        except (KeyError, ValueError):
            return
        if got != exp and len(wit) < 10:
            wit.append({'suite': suite, 'input': inp, 'command': cmd, 'expected': 'stream %d encodes at %d b/s' % (i, exp),
                        'observed': 'stream %d encodes at %d b/s' % (i, got),
                        'why': 'the bit-rate a stream encoder was given differs from the exact evaluation of rate_allocation '
                               '(32-bit overflow in opus_multistream_encoder.c:729/:733)'})


def _scan(out, suite, cmd, wit, stats):
    cur = None
    mcur = None
    for line in out.split('\n'):
        if line.startswith('I encskel msrate ') or line.startswith('I encskel msuser '):
            mcur = line[2:]
            continue
        if mcur is not None and line.startswith('O '):
            _scan_msrate(mcur, line[2:], suite, cmd, wit, stats)
            mcur = None
            continue
        if line.startswith('# LAYOUT '):
            d = _kv(line)
            try:
                nch, n, c, lfe, mt, fam, ch = (int(d[k]) for k in ('nch', 'streams', 'coupled', 'lfe', 'mt', 'fam', 'ch'))
            except (KeyError, ValueError):
                continue
            stats['layout'] = stats.get('layout', 0) + 1
            ok = 1 <= n and 0 <= c <= n and n + c <= nch <= 255 and (lfe == -1 or (c <= lfe == n - 1 and n >= 2 and mt == 1)) and \
                (fam < 0 or nch == n + c) and (mt == 2) == (fam == 2)
            if not ok and len(wit) < 10:
                wit.append({'suite': suite, 'input': line[2:], 'command': cmd, 'expected': 'layout invariant MsLayoutOk',
                            'observed': line[2:], 'why': 'a create function produced a layout outside the invariant the rate-allocation theorems assume'})
            continue
        if line.startswith('# MSRATE-'):
            if len(wit) < 10:
                wit.append({'suite': suite, 'input': line[2:], 'command': cmd, 'expected': 'create / encode succeed', 'observed': line[2:],
                            'why': 'multistream create or encode failed on a valid configuration'})
            continue
        if line.startswith('I encskel native '):
            cur = line[2:]
        elif line.startswith('O ') and cur is not None:
            stats['cases'] += 1
            bad = check_case(cur, line[2:])
            k = 'err' if line.startswith('O ret=-') else ('trap' if not line.startswith('O ret=') else 'ok')
            stats[k] = stats.get(k, 0) + 1
            if bad and len(wit) < 10:
                wit.append({'suite': suite, 'input': cur, 'command': cmd, 'expected': bad[0], 'observed': line[2:][:400], 'why': bad[1]})
            cur = None
        elif line.startswith('# GUARD-OVERWRITTEN'):
            if len(wit) < 10:
                wit.append({'suite': suite, 'input': cur or cmd, 'command': cmd, 'expected': 'bytes after data[max_data_bytes] untouched',
                            'observed': line[2:], 'why': 'the encoder wrote past max_data_bytes (guard bytes overwritten)'})
        elif line.startswith('# MS '):
            stats['ms'] = stats.get('ms', 0) + 1
            d = _kv(line)
            try:
                fs, streams, afs, outb, vbr, br, ret, nch = (int(d[k]) for k in ('fs', 'streams', 'afs', 'out', 'vbr', 'br', 'ret', 'ch'))
            except (KeyError, ValueError):
                continue
            if br > 0:      # opus_multistream_encoder_ctl(OPUS_SET_BITRATE) clamps to [500, 300000] per channel
                br = min(300000 * nch, max(500 * nch, br))
            small = streams * 2 - 1 + (streams if fs // afs == 10 else 0)
            why = None
            if outb < small:
                if ret != -2:
                    why, exp = 'multistream: buffer below the minimum not refused with OPUS_BUFFER_TOO_SMALL (ret=%d)' % ret, 'OPUS_BUFFER_TOO_SMALL'
            elif not (1 <= ret <= outb):
                why, exp = 'multistream: return value %d outside 1..max_data_bytes=%d' % (ret, outb), '1 <= ret <= %d' % outb
            elif vbr == 0:
                if br == -1000:   # the clamp of :882 with the rate_allocation sum (exact re-evaluation, ms_alloc)
                    fam, coupled = int(d.get('fam', -1)), int(d.get('coupled', 0))
                    rs, _ = ms_alloc(fs, afs, streams, coupled, streams - 1 if fam == 1 and nch >= 6 else -1, fam == 2, br)
                    exp_n = min(outb, 3 * rs // (3 * 8 * fs // afs))
                else:
                    exp_n = outb if br == -1 else min(outb, max(small, 3 * br // (3 * 8 * fs // afs)))
                if ret != exp_n:
                    why, exp = 'multistream CBR packet has %d bytes, expected %d' % (ret, exp_n), 'CBR packet of %d bytes' % exp_n
            if why and len(wit) < 10:
                wit.append({'suite': suite, 'input': line[2:], 'command': cmd, 'expected': exp, 'observed': 'ret=%d' % ret, 'why': why})
        elif line.startswith('V cvbr '):
            stats['cvbr'] = stats.get('cvbr', 0) + 1
            d = {k: int(v) for k, v in _kv(line).items()}
            dur = Fraction(d['frames'] * d['frame'], d['fs'])
            rate = d['bytes'] * 8 / dur
            fps = Fraction(d['fs'], d['frame'])
            eps = [b['eps'] for b in CAL['bands'] if d['br'] // d['ch'] <= b['max_bps_per_channel']][0]
            lim = d['br'] * (1 + eps) + 8 * fps
            if d['fails'] or rate > lim:
                if len(wit) < 10:
                    wit.append({'suite': suite, 'input': line[2:], 'command': cmd,
                                'expected': 'constrained-VBR average <= %.0f b/s (target %d, calibrated eps %.2f + one ToC byte per packet)' % (lim, d['br'], eps),
                                'observed': 'average %.0f b/s over %.1f s, %d failed calls' % (rate, dur, d['fails']),
                                'why': 'long-run constrained-VBR rate exceeds the requested bit-rate beyond the calibrated tolerance'})


def classify(ctx, tie, mm):
    """A model/implementation disagreement is a witness iff the implementation's own answer violates C05."""
    inp = mm.get('input', '')
    if inp.startswith('encskel msrate ') or inp.startswith('encskel msuser '):
        wit = []
        _scan_msrate(inp, mm.get('impl', ''), tie.name, '', wit, {})
        if not wit:
            return None
        wit[0]['model'] = mm.get('model', '')[:400]
        return wit[0]
    bad = check_case(inp, mm.get('impl', ''))
    if not bad:
        return None
    return {'suite': tie.name, 'input': mm.get('input', ''), 'expected': bad[0], 'observed': mm.get('impl', '')[:400],
            'why': bad[1], 'model': mm.get('model', '')[:400], 'sanitizer_report': mm.get('sanitizer_report')}


def _runs(ctx):
    q, s = ctx.quick, ctx.seed
    hp = _h(ctx, 'plain')
    return [('encsize-search-rand', [hp, 'rand', str(s + 1000), '2500' if q else '30000']),
            ('encsize-search-sweep', [hp, 'sweep', str(s + 1000), '0' if q else '1']),
            ('encsize-search-bound', [hp, 'bound', str(s + 1000), '0' if q else '1']),
            ('encsize-search-fill', [hp, 'fill', str(s + 1000), '0' if q else '1']),
            ('encsize-search-ms', [hp, 'ms', str(s + 1000), '300' if q else '4000']),
            ('encsize-search-mssweep', [hp, 'mssweep', str(s + 1000), '0' if q else '1']),
            ('encsize-search-cvbr', [hp, 'cvbr', str(s), '40' if q else '400', str(CAL['seconds'])]),
            ('msrate-search-api', [_h(ctx, 'plain', 'c05_msrate'), 'api', str(s + 1000), '80' if q else '800']),
            ('msrate-search-generic', [_h(ctx, 'plain', 'c05_msrate'), 'generic', str(s + 1000), '40' if q else '400']),
            ('msrate-search-corpus', [_h(ctx, 'plain', 'c05_msrate'), 'corpus', os.path.join(common.VERIF, 'corpus', 'C05', 'msrate_cases.txt')])]


def search(ctx):
    """C05 predicates on the real encoder only (no model): return range, guard bytes, exact CBR size, BITRATE_MAX, packet
    parses with the announced duration, multistream totals, CVBR long-run average."""
    wit, stats = [], {'cases': 0}
    for suite, cmd in _runs(ctx):
        rc, out = common.sh(cmd, timeout=3000)
        hname = 'c05_msrate' if suite.startswith('msrate-') else 'c05_encsize'
        _scan(out, suite, ' '.join([hname] + cmd[1:]), wit, stats)
        if rc not in (0, 7) and not wit:
            wit.append({'suite': suite, 'input': ' '.join(cmd[1:]), 'command': ' '.join([hname] + cmd[1:]),
                        'expected': 'harness completes', 'observed': 'exit code %d: %s' % (rc, out[-300:]),
                        'why': 'the encoder trapped (abort / crash) during the search'})
    n = stats['cases'] + stats.get('ms', 0) + stats.get('cvbr', 0) + stats.get('msrate', 0) + stats.get('msuser', 0)
    return {'cases': n, 'distinct': len(stats), 'distribution': stats,
            'oracle': 'on the real encoder: BAD_ARG / BUFFER_TOO_SMALL exactly for invalid arguments and 100 ms in 1 byte; '
                      '1 <= ret <= out_data_bytes; 64 guard bytes after data[out_data_bytes] intact; packet parses with '
                      'count x samples_per_frame = frame_size; CBR size == max(1, min(floor(b*T/8+1/2), min(out,1276))) over Q '
                      '(DTX packets and BITRATE_MAX multi-frame packets, which fill out_data_bytes, excepted); multistream: '
                      'BUFFER_TOO_SMALL below 2*streams-1 (+streams at 100 ms), ret <= max_data_bytes, CBR total exact (incl. OPUS_AUTO '
                      'through the allocated rate sum); rate_allocation and the bit-rate each stream encoder ends up with == exact '
                      'integer evaluation of the allocation formulas (no 32-bit wrap), on layouts from every create function and on '
                      'explicit mappings with up to 255 input channels; layouts satisfy MsLayoutOk; '
                      'constrained VBR: 8 s average <= target*(1+eps(band)) + one ToC byte per packet, eps from '
                      'tools/calibration_C05.json',
            'samples': ['%s -> %s' % (' '.join(c[1:]), stats) for _, c in _runs(ctx)][:2],
            'witnesses': wit[:10]}


def replay(ctx, obj):
    """Re-run the harness command that produced the witness and re-evaluate the predicate on the same input line."""
    cmd = obj.get('command') or ''
    toks = cmd.split(' ')
    if len(toks) < 2 or toks[0] not in ('c05_encsize', 'c05_msrate'):
        print('replay: no harness command recorded; re-running the whole check')
        import sys
        os.execv(sys.executable, [sys.executable, os.path.join(common.VERIF, 'tools', 'check.py'), ctx.prop, '--tier', obj.get('tier', 'quick')])
    variant = 'san' if obj.get('suite', '').startswith('encskel-') else 'plain'
    h = _h(ctx, variant, toks[0])
    rc, out = common.sh([h] + toks[1:], timeout=3000, env={'ASAN_OPTIONS': 'detect_leaks=0:abort_on_error=0'})
    wit, stats = [], {'cases': 0}
    _scan(out, obj.get('suite', 'replay'), cmd, wit, stats)
    hit = [w for w in wit if w['input'] == obj.get('input')] or wit
    if hit:
        w = hit[0]
        print('input: %s\n  expected: %s\n  observed: %s\n  why: %s' % (w['input'][:300], w['expected'], w['observed'][:300], w['why']))
        print('VIOLATION property=C05 replay reproduced')
        return 1
    print('replay: %d cases re-run, the property predicate holds on all of them' % stats['cases'])
    return 0


LEVEL_TEXT = ('proof of the size skeleton, partial for the property: Lean model of the byte accounting of opus_encode_native / '
              'opus_encode_frame_native (budget, cbr_bytes, low-budget path, decision chain, multi-frame split, redundancy bytes, '
              'trailing-zero strip, padding), of the multistream per-stream budget split and of the CELT constrained-VBR reservoir, '
              'with SILK/CELT/range coder as contract-bound oracles; kernel-checked for all oracle '
              'behaviours, settings, frame sizes and out_data_bytes: cbr_bytes = min(round(b*T/8), max) over Q, 1 <= ret <= '
              'out_data_bytes, exact CBR size on every path, BITRATE_MAX fills, too-small buffers give BUFFER_TOO_SMALL or a '
              'ToC-only packet, no INTERNAL_ERROR / assertion site reachable; stOk (the ctl/decision-chain invariant the theorems assume) is preserved by '
              'every call and holds along every history from opus_encoder_create through any ctl requests (bridge to C11 EncInv '
              'by an explicit refinement map); multistream: every stream gets a legal budget and ret <= max_data_bytes, the integer rate '
              'allocation (per-stream floors, what the sum is, no 32-bit overflow for every layout / frame size / setting, OPUS_AUTO '
              'always worth smallest_packet); CVBR '
              'reservoir in [0, vbr_rate] and 64*sum(bytes) <= (N+1)*vbr_rate; tied to the code by replaying every recorded real '
              'call (return value, packet structure, post-state, inner calls) under ASan/UBSan; CVBR average only searched')
LEVEL_NOTE = ('trusted: Lean kernel; oracle contracts on silk_Encode / celt_encode_with_ec / ec_tell (monitored at run time, not '
              'proved); repacketiser contract (C07 proves the repacketiser itself); the harness that wraps inner calls by macro '
              'redirection; unbounded Int for C int. Not proved: CVBR convergence towards the target (only the upper bound).')
TECHNIQUE = 'Lean 4 theorems over an executable skeleton with contract-bound oracles + differential replay of recorded real calls'
