/* StructFields.c — extractor for C12 (OpusModel/Gen/StructFields.lean).
   This TU *is* src/opus_encoder.c, src/opus_decoder.c, celt/celt_encoder.c and celt/celt_decoder.c
   (they are #included), compiled with the library's own -D/-I flags.  It prints, through offsetof /
   sizeof / __alignof__ / __builtin_classify_type (never a regex):
     * every member of OpusEncoder, OpusDecoder, silk_EncControlStruct, silk_DecControlStruct and the
       configuration part of CELTEncoder: name, offset, size, alignment, kind (I F P A R), and whether it
       lies at or after the OPUS_*_RESET_START marker; whether the listed members tile the struct;
     * opus_*_get_size and the sub-state offsets/sizes for 1 and 2 channels;
     * every pointer-typed member of the complete state (nested ones by name), with where the pointer is
       OBSERVED to point after the object has been used (null / static image / caller memory / self);
     * a conservative scan of every used object for words that hold an address inside the object;
     * the values every member holds after opus_*_init (per Fs / channels / application);
     * which members OPUS_RESET_STATE leaves untouched, measured on poisoned objects. */
#define CELT_ENCODER_C
#define CELT_DECODER_C
#ifdef HAVE_CONFIG_H
#include "config.h"
#endif
#include <stdio.h>
#include <stdlib.h>
#include <string.h>
#include <stdint.h>
#include "celt/celt_encoder.c"
#include "celt/celt_decoder.c"
#include "src/opus_encoder.c"
#include "src/opus_decoder.c"
#include "opus_multistream.h"
#include "opus_projection.h"
#include "structs.h"
#include "c12_fields.h"

typedef struct { const char *name; int off, size, al; char kind; } FieldD;
#define FD(T, f, k) {#f, (int)offsetof(T, f), (int)sizeof(((T *)0)->f), (int)__alignof__(((T *)0)->f), #k[0]},
#define CK(T, f, k) C12_CHECK_##k(T, f)
#define XE(f, k) FD(OpusEncoder, f, k)
#define XS(f, k) FD(silk_EncControlStruct, f, k)
#define XD(f, k) FD(OpusDecoder, f, k)
#define XDS(f, k) FD(silk_DecControlStruct, f, k)
#define XC(f, k) FD(CELTEncoder, f, k)
#define CE(f, k) CK(OpusEncoder, f, k)
#define CS(f, k) CK(silk_EncControlStruct, f, k)
#define CD(f, k) CK(OpusDecoder, f, k)
#define CDS(f, k) CK(silk_DecControlStruct, f, k)
#define CC(f, k) CK(CELTEncoder, f, k)
ENC_FIELDS(CE) SILKENC_FIELDS(CS) DEC_FIELDS(CD) SILKDEC_FIELDS(CDS) CELTENC_CFG_FIELDS(CC)
static const FieldD ENCF[] = { ENC_FIELDS(XE) };
static const FieldD SILKF[] = { SILKENC_FIELDS(XS) };
static const FieldD DECF[] = { DEC_FIELDS(XD) };
static const FieldD SILKDF[] = { SILKDEC_FIELDS(XDS) };
static const FieldD CELTF[] = { CELTENC_CFG_FIELDS(XC) };
#define NF(a) ((int)(sizeof(a) / sizeof((a)[0])))

/* the members must tile [0, total): taken in offset order (declaration order may differ from the list's),
   each starts at the previous end rounded up to its alignment */
static int tiles(const FieldD *f0, int n, int total, int structAlign)
{
   FieldD f[80]; int i, j, end = 0;
   if (n > 80) return 0;
   for (i = 0; i < n; i++) f[i] = f0[i];
   for (i = 1; i < n; i++) { FieldD t = f[i]; for (j = i; j > 0 && f[j - 1].off > t.off; j--) f[j] = f[j - 1]; f[j] = t; }
   for (i = 0; i < n; i++) {
      int want = (end + f[i].al - 1) / f[i].al * f[i].al;
      if (f[i].off != want) return 0;
      end = f[i].off + f[i].size;
   }
   return (end + structAlign - 1) / structAlign * structAlign == total;
}
static void print_fields(const char *lname, const FieldD *f, int n, int marker)
{
   int i;
   printf("def %s : List Field := [\n", lname);
   for (i = 0; i < n; i++)
      printf("  ⟨\"%s\", %d, %d, %d, \"%c\", %s⟩%s\n", f[i].name, f[i].off, f[i].size, f[i].al, f[i].kind,
             (marker >= 0 && f[i].off >= marker) ? "true" : "false", i + 1 < n ? "," : "");
   printf("]\n\n");
}

/* ---- where does a pointer point? ---- */
extern char __executable_start, end;
static const char *classify(const void *obj, int size, const void *v, const void *caller, int callersz)
{
   const char *p = (const char *)v;
   if (!p) return "null";
   if (p >= (const char *)obj && p < (const char *)obj + size) return "self";
   if (p >= &__executable_start && p < &end) return "static";
   if (caller && p >= (const char *)caller && p <= (const char *)caller + callersz) return "caller";   /* one-past allowed */
   return "other";
}
static int self_words(const void *obj, int size)
{
   int off, n = 0;
   for (off = 0; off + (int)sizeof(void *) <= size; off += (int)sizeof(void *)) {
      uintptr_t v; memcpy(&v, (const char *)obj + off, sizeof v);
      if (v >= (uintptr_t)obj && v < (uintptr_t)obj + (uintptr_t)size) n++;
   }
   return n;
}

static float sig[5760 * 2];
static void mksig(int n, int ch, int k)
{
   int i; unsigned s = 12345u + k;
   for (i = 0; i < n * ch; i++) { s = s * 1664525u + 1013904223u; sig[i] = 0.3f * (float)sin(0.02 * (1 + k % 7) * (i / ch)) + ((s >> 9) / 8388608.0f - 1.0f) * 0.01f; }
}

#define PTR(label, owner, obj, size, expr, caller, csz) \
   printf("  (\"%s\", \"%s\", \"%s\")%s\n", label, owner, classify(obj, size, (const void *)(expr), caller, csz), ",")

int main(void)
{
   int ch, i, selfw = 0, objects = 0;
   static const int FS[5] = {8000, 12000, 16000, 24000, 48000};
   static const int APP[3] = {OPUS_APPLICATION_VOIP, OPUS_APPLICATION_AUDIO, OPUS_APPLICATION_RESTRICTED_LOWDELAY};
   printf("/- GENERATED by tools/regen.py from tools/extract/StructFields.c — do not edit. -/\n");
   printf("namespace Opus.Gen.StructFields\n\n");
   printf("/-- name, offset, size, alignment, kind (I integer, F float, P pointer, A array, R record), at or after the reset marker -/\n");
   printf("structure Field where\n  name : String\n  off : Nat\n  size : Nat\n  al : Nat\n  kind : String\n  afterMarker : Bool\n  deriving DecidableEq, Repr\n\n");
   print_fields("encFields", ENCF, NF(ENCF), (int)offsetof(OpusEncoder, OPUS_ENCODER_RESET_START));
   print_fields("silkEncFields", SILKF, NF(SILKF), -1);
   print_fields("decFields", DECF, NF(DECF), (int)offsetof(OpusDecoder, OPUS_DECODER_RESET_START));
   print_fields("silkDecFields", SILKDF, NF(SILKDF), -1);
   print_fields("celtEncCfgFields", CELTF, NF(CELTF), -1);
   printf("def encSizeof : Nat := %d\ndef encResetStart : Nat := %d\ndef encTiles : Bool := %s\n", (int)sizeof(OpusEncoder),
          (int)offsetof(OpusEncoder, OPUS_ENCODER_RESET_START), tiles(ENCF, NF(ENCF), sizeof(OpusEncoder), __alignof__(OpusEncoder)) ? "true" : "false");
   printf("def silkEncSizeof : Nat := %d\ndef silkEncTiles : Bool := %s\n", (int)sizeof(silk_EncControlStruct),
          tiles(SILKF, NF(SILKF), sizeof(silk_EncControlStruct), __alignof__(silk_EncControlStruct)) ? "true" : "false");
   printf("def decSizeof : Nat := %d\ndef decResetStart : Nat := %d\ndef decTiles : Bool := %s\n", (int)sizeof(OpusDecoder),
          (int)offsetof(OpusDecoder, OPUS_DECODER_RESET_START), tiles(DECF, NF(DECF), sizeof(OpusDecoder), __alignof__(OpusDecoder)) ? "true" : "false");
   printf("def silkDecSizeof : Nat := %d\ndef silkDecTiles : Bool := %s\n", (int)sizeof(silk_DecControlStruct),
          tiles(SILKDF, NF(SILKDF), sizeof(silk_DecControlStruct), __alignof__(silk_DecControlStruct)) ? "true" : "false");
   printf("/-- the CELT configuration members end where its reset marker `rng` starts -/\ndef celtEncCfgEnd : Nat := %d\ndef celtEncResetStart : Nat := %d\n",
          CELTF[NF(CELTF) - 1].off + CELTF[NF(CELTF) - 1].size, (int)offsetof(CELTEncoder, ENCODER_RESET_START));
   printf("def celtEncCfgTiles : Bool := %s\n\n", tiles(CELTF, NF(CELTF), offsetof(CELTEncoder, ENCODER_RESET_START), 4) ? "true" : "false");

   /* layout per channel count: (channels, get_size, align(sizeof), silk offset, silk size, celt offset, celt size) */
   printf("/-- (channels, opus_encoder_get_size, align(sizeof OpusEncoder), silk_enc_offset, aligned SILK size, celt_enc_offset, CELT size) -/\n");
   printf("def encLayout : List (Nat × Nat × Nat × Nat × Nat × Nat × Nat) := [\n");
   for (ch = 1; ch <= 2; ch++) {
      int silksz = 0; OpusEncoder *e = (OpusEncoder *)malloc(opus_encoder_get_size(ch));
      opus_encoder_init(e, 48000, ch, OPUS_APPLICATION_AUDIO); silk_Get_Encoder_Size(&silksz);
      printf("  (%d, %d, %d, %d, %d, %d, %d)%s\n", ch, opus_encoder_get_size(ch), align(sizeof(OpusEncoder)), e->silk_enc_offset,
             align(silksz), e->celt_enc_offset, celt_encoder_get_size(ch), ch == 1 ? "," : "");
      free(e);
   }
   printf("]\n/-- same for the decoder -/\ndef decLayout : List (Nat × Nat × Nat × Nat × Nat × Nat × Nat) := [\n");
   for (ch = 1; ch <= 2; ch++) {
      int silksz = 0; OpusDecoder *d = (OpusDecoder *)malloc(opus_decoder_get_size(ch));
      opus_decoder_init(d, 48000, ch); silk_Get_Decoder_Size(&silksz);
      printf("  (%d, %d, %d, %d, %d, %d, %d)%s\n", ch, opus_decoder_get_size(ch), align(sizeof(OpusDecoder)), d->silk_dec_offset,
             align(silksz), d->celt_dec_offset, celt_decoder_get_size(ch), ch == 1 ? "," : "");
      free(d);
   }
   printf("]\n\n");

   /* pointer-typed members of the complete state and where they are observed to point after use */
   printf("/-- (member, declared owner class in this extractor, observed target after the object was used):\n");
   printf("    every pointer-typed member of the encoder / decoder / repacketizer state incl. the SILK and CELT sub-states -/\n");
   printf("def pointerMembers : List (String × String × String) := [\n");
   for (ch = 1; ch <= 2; ch++) {
      int sz = opus_encoder_get_size(ch), k, n; unsigned char pkt[1500]; celt_glog *mask = (celt_glog *)calloc(42, sizeof(celt_glog));
      OpusEncoder *e = (OpusEncoder *)malloc(sz); CELTEncoder *ce; silk_encoder *se; char lab[96];
      opus_encoder_init(e, 48000, ch, OPUS_APPLICATION_AUDIO);
      opus_encoder_ctl(e, OPUS_SET_ENERGY_MASK(mask));
      for (k = 0; k < 12; k++) {
         opus_encoder_ctl(e, OPUS_SET_FORCE_MODE(k < 4 ? MODE_SILK_ONLY : k < 8 ? MODE_HYBRID : MODE_CELT_ONLY));
         opus_encoder_ctl(e, OPUS_SET_BITRATE(k < 4 ? 16000 : 48000));
         mksig(960, ch, k); (void)opus_encode_float(e, sig, 960, pkt, sizeof pkt);
      }
      ce = (CELTEncoder *)((char *)e + e->celt_enc_offset); se = (silk_encoder *)((char *)e + e->silk_enc_offset);
      sprintf(lab, "enc%d.energy_masking", ch); PTR(lab, "caller", e, sz, e->energy_masking, mask, 42 * (int)sizeof(celt_glog));
      sprintf(lab, "enc%d.celt.mode", ch); PTR(lab, "static", e, sz, ce->mode, NULL, 0);
      sprintf(lab, "enc%d.celt.energy_mask", ch); PTR(lab, "caller", e, sz, ce->energy_mask, mask, 42 * (int)sizeof(celt_glog));
      for (n = 0; n < ch; n++) {
         sprintf(lab, "enc%d.silk.state[%d].pitch_lag_low_bits_iCDF", ch, n); PTR(lab, "static", e, sz, se->state_Fxx[n].sCmn.pitch_lag_low_bits_iCDF, NULL, 0);
         sprintf(lab, "enc%d.silk.state[%d].pitch_contour_iCDF", ch, n); PTR(lab, "static", e, sz, se->state_Fxx[n].sCmn.pitch_contour_iCDF, NULL, 0);
         sprintf(lab, "enc%d.silk.state[%d].psNLSF_CB", ch, n); PTR(lab, "static", e, sz, se->state_Fxx[n].sCmn.psNLSF_CB, NULL, 0);
         sprintf(lab, "enc%d.silk.state[%d].resampler.Coefs", ch, n); PTR(lab, "static", e, sz, se->state_Fxx[n].sCmn.resampler_state.Coefs, NULL, 0);
      }
      selfw += self_words(e, sz); objects++;
      free(e); free(mask);
   }
   for (ch = 1; ch <= 2; ch++) {
      int sz = opus_decoder_get_size(ch), k, n, esz = opus_encoder_get_size(ch); unsigned char pkt[1500]; char lab[96];
      OpusDecoder *d = (OpusDecoder *)malloc(sz); OpusEncoder *e = (OpusEncoder *)malloc(esz); CELTDecoder *cd; silk_decoder_state *sd;   /* silk_decoder (private to dec_API.c) starts with channel_state[2] */
      opus_decoder_init(d, 48000, ch); opus_encoder_init(e, 48000, ch, OPUS_APPLICATION_AUDIO);
      for (k = 0; k < 12; k++) {
         int len;
         opus_encoder_ctl(e, OPUS_SET_FORCE_MODE(k < 4 ? MODE_SILK_ONLY : k < 8 ? MODE_HYBRID : MODE_CELT_ONLY));
         opus_encoder_ctl(e, OPUS_SET_BITRATE(k < 4 ? 16000 : 48000));
         mksig(960, ch, k); len = opus_encode_float(e, sig, 960, pkt, sizeof pkt);
         if (len > 0) (void)opus_decode_float(d, pkt, len, sig, 960, 0);
      }
      cd = (CELTDecoder *)((char *)d + d->celt_dec_offset); sd = (silk_decoder_state *)((char *)d + d->silk_dec_offset);
      sprintf(lab, "dec%d.celt.mode", ch); PTR(lab, "static", d, sz, cd->mode, NULL, 0);
      for (n = 0; n < ch; n++) {
         sprintf(lab, "dec%d.silk.state[%d].pitch_lag_low_bits_iCDF", ch, n); PTR(lab, "static", d, sz, sd[n].pitch_lag_low_bits_iCDF, NULL, 0);
         sprintf(lab, "dec%d.silk.state[%d].pitch_contour_iCDF", ch, n); PTR(lab, "static", d, sz, sd[n].pitch_contour_iCDF, NULL, 0);
         sprintf(lab, "dec%d.silk.state[%d].psNLSF_CB", ch, n); PTR(lab, "static", d, sz, sd[n].psNLSF_CB, NULL, 0);
         sprintf(lab, "dec%d.silk.state[%d].resampler.Coefs", ch, n); PTR(lab, "static", d, sz, sd[n].resampler_state.Coefs, NULL, 0);
      }
      selfw += self_words(d, sz) + self_words(e, esz); objects += 2;
      free(d); free(e);
   }
   {
      OpusRepacketizer *rp = (OpusRepacketizer *)malloc(opus_repacketizer_get_size()); unsigned char pk[8] = {0x08, 1, 2, 3, 4, 5, 6, 7};
      opus_repacketizer_init(rp); opus_repacketizer_cat(rp, pk, sizeof pk);
      printf("  (\"rp.frames[0]\", \"caller\", \"%s\"),\n", classify(rp, opus_repacketizer_get_size(), rp->frames[0], pk, sizeof pk));
      printf("  (\"rp.paddings[0]\", \"caller\", \"%s\")\n", classify(rp, opus_repacketizer_get_size(), rp->paddings[0], pk, sizeof pk));
      selfw += self_words(rp, opus_repacketizer_get_size()); objects++;
      free(rp);
   }
   printf("]\n\n");
   /* multistream / projection objects: conservative scan only (their own structs hold no pointers) */
   {
      int st = 0, cp = 0, err = 0, k; unsigned char map[8], pkt[4000]; static float s6[960 * 6];
      OpusMSEncoder *me = opus_multistream_surround_encoder_create(48000, 6, 1, &st, &cp, map, OPUS_APPLICATION_AUDIO, &err);
      OpusMSDecoder *md = opus_multistream_decoder_create(48000, 6, st, cp, map, &err);
      OpusProjectionEncoder *pe; OpusProjectionDecoder *pd; opus_int32 msz = 0; unsigned char *mat;
      for (k = 0; k < 4; k++) { int i2, len; for (i2 = 0; i2 < 960 * 6; i2++) s6[i2] = 0.2f * (float)sin(0.01 * (i2 % 977) * (k + 1));
         len = opus_multistream_encode_float(me, s6, 960, pkt, sizeof pkt); if (len > 0) (void)opus_multistream_decode_float(md, pkt, len, s6, 960, 0); }
      selfw += self_words(me, opus_multistream_surround_encoder_get_size(6, 1)) + self_words(md, opus_multistream_decoder_get_size(st, cp)); objects += 2;
      pe = opus_projection_ambisonics_encoder_create(48000, 4, 3, &st, &cp, OPUS_APPLICATION_AUDIO, &err);
      opus_projection_encoder_ctl(pe, OPUS_PROJECTION_GET_DEMIXING_MATRIX_SIZE(&msz)); mat = (unsigned char *)malloc(msz);
      opus_projection_encoder_ctl(pe, OPUS_PROJECTION_GET_DEMIXING_MATRIX(mat, msz));
      pd = opus_projection_decoder_create(48000, 4, st, cp, mat, msz, &err);
      for (k = 0; k < 4; k++) { int i2, len; for (i2 = 0; i2 < 960 * 4; i2++) s6[i2] = 0.2f * (float)sin(0.013 * (i2 % 911) * (k + 1));
         len = opus_projection_encode_float(pe, s6, 960, pkt, sizeof pkt); if (len > 0) (void)opus_projection_decode_float(pd, pkt, len, s6, 960, 0); }
      selfw += self_words(pe, opus_projection_ambisonics_encoder_get_size(4, 3)) + self_words(pd, opus_projection_decoder_get_size(4, st, cp)); objects += 2;
      opus_multistream_encoder_destroy(me); opus_multistream_decoder_destroy(md);
      opus_projection_encoder_destroy(pe); opus_projection_decoder_destroy(pd); free(mat);
   }
   printf("/-- conservative scan: aligned words of %d used objects (get_size bytes each) holding an address inside the object -/\n", objects);
   printf("def selfPointerWords : Nat := %d\ndef scannedObjects : Nat := %d\n\n", selfw, objects);

   /* values after init: (Fs, channels, application, encoder members I/F/P in list order, silk_mode members, CELT cfg I members) */
   printf("/-- member values after opus_encoder_init, in the order of encFields (kinds I, F as bit pattern, P as 0/1),\n    silkEncFields, celtEncCfgFields (kind I) -/\n");
   printf("def encInitValues : List (Int × Int × Int × List Int) := [\n");
   for (i = 0; i < 5 * 2 * 3; i++) {
      int Fs = FS[i % 5], c = 1 + (i / 5) % 2, app = APP[i / 10], k; OpusEncoder *e = (OpusEncoder *)malloc(opus_encoder_get_size(c)); const char *base;
      memset(e, 0xA5, opus_encoder_get_size(c)); opus_encoder_init(e, Fs, c, app);
      printf("  (%d, %d, %d, [", Fs, c, app);
      for (k = 0; k < NF(ENCF); k++) { const char *p = (const char *)e + ENCF[k].off;
         if (ENCF[k].kind == 'I') { long long v; if (ENCF[k].size == 2) { opus_int16 t; memcpy(&t, p, 2); v = t; } else { opus_int32 t; memcpy(&t, p, 4); v = t; } printf("%lld, ", v); }
         else if (ENCF[k].kind == 'F') { opus_uint32 t; memcpy(&t, p, 4); printf("%u, ", t); }
         else if (ENCF[k].kind == 'P') { void *t; memcpy(&t, p, sizeof t); printf("%d, ", t != NULL); } }
      base = (const char *)&e->silk_mode;
      for (k = 0; k < NF(SILKF); k++) { opus_int32 t; memcpy(&t, base + SILKF[k].off, 4); printf("%d, ", t); }
      base = (const char *)e + e->celt_enc_offset;
      for (k = 0; k < NF(CELTF); k++) if (CELTF[k].kind == 'I') { opus_int32 t; memcpy(&t, base + CELTF[k].off, 4); printf("%d%s", t, k + 1 < NF(CELTF) ? ", " : ""); }
      printf("])%s\n", i + 1 < 30 ? "," : "");
      free(e);
   }
   printf("]\n\n");
   printf("/-- member values after opus_decoder_init: decFields (I), silkDecFields -/\ndef decInitValues : List (Int × Int × List Int) := [\n");
   for (i = 0; i < 10; i++) {
      int Fs = FS[i % 5], c = 1 + i / 5, k, firstv = 1; OpusDecoder *d = (OpusDecoder *)malloc(opus_decoder_get_size(c)); const char *base;
      memset(d, 0xA5, opus_decoder_get_size(c)); opus_decoder_init(d, Fs, c);
      printf("  (%d, %d, [", Fs, c);
      for (k = 0; k < NF(DECF); k++) if (DECF[k].kind == 'I') { opus_int32 t; memcpy(&t, (const char *)d + DECF[k].off, 4); printf("%s%d", firstv ? "" : ", ", t); firstv = 0; }
      base = (const char *)&d->DecControl;
      for (k = 0; k < NF(SILKDF); k++) { opus_int32 t; memcpy(&t, base + SILKDF[k].off, 4); printf(", %d", t); }
      printf("])%s\n", i + 1 < 10 ? "," : "");
      free(d);
   }
   printf("]\n\n");

   /* which members does OPUS_RESET_STATE change?  Measured: every I member poisoned with two different
      patterns (structural members kept), reset, compared.  "kept" = equals the poison in both runs. */
   {
      static const char *STRUCTURAL[] = {"celt_enc_offset", "silk_enc_offset", "channels", "Fs", "arch", "encoder_buffer",
                                         "delay_compensation", "celt_dec_offset", "silk_dec_offset", NULL};
      int pass, k; int kept_e[64], kept_s[64], kept_d[64], kept_ds[64];
      for (k = 0; k < 64; k++) kept_e[k] = kept_s[k] = kept_d[k] = kept_ds[k] = 1;
      for (pass = 0; pass < 2; pass++) {
         opus_int32 poison = pass ? 0x01020304 : 0x7A6B5C4D; OpusEncoder *e = (OpusEncoder *)malloc(opus_encoder_get_size(2)); OpusDecoder *d = (OpusDecoder *)malloc(opus_decoder_get_size(2));
         opus_encoder_init(e, 48000, 2, OPUS_APPLICATION_AUDIO); opus_decoder_init(d, 48000, 2);
         for (k = 0; k < NF(ENCF); k++) if (ENCF[k].kind == 'I') { int s2, st2 = 0; for (s2 = 0; STRUCTURAL[s2]; s2++) if (!strcmp(STRUCTURAL[s2], ENCF[k].name)) st2 = 1;
            if (!st2) memcpy((char *)e + ENCF[k].off, &poison, ENCF[k].size); }
         for (k = 0; k < NF(SILKF); k++) memcpy((char *)&e->silk_mode + SILKF[k].off, &poison, 4);
         for (k = 0; k < NF(DECF); k++) if (DECF[k].kind == 'I') { int s2, st2 = 0; for (s2 = 0; STRUCTURAL[s2]; s2++) if (!strcmp(STRUCTURAL[s2], DECF[k].name)) st2 = 1;
            if (!st2) memcpy((char *)d + DECF[k].off, &poison, 4); }
         for (k = 0; k < NF(SILKDF); k++) memcpy((char *)&d->DecControl + SILKDF[k].off, &poison, 4);
         opus_encoder_ctl(e, OPUS_RESET_STATE); opus_decoder_ctl(d, OPUS_RESET_STATE);
         for (k = 0; k < NF(ENCF); k++) if (memcmp((char *)e + ENCF[k].off, &poison, ENCF[k].size < 4 ? ENCF[k].size : 4)) kept_e[k] = 0;
         for (k = 0; k < NF(SILKF); k++) if (memcmp((char *)&e->silk_mode + SILKF[k].off, &poison, 4)) kept_s[k] = 0;
         for (k = 0; k < NF(DECF); k++) if (memcmp((char *)d + DECF[k].off, &poison, 4)) kept_d[k] = 0;
         for (k = 0; k < NF(SILKDF); k++) if (memcmp((char *)&d->DecControl + SILKDF[k].off, &poison, 4)) kept_ds[k] = 0;
         free(e); free(d);
      }
      printf("/-- integer members that OPUS_RESET_STATE leaves untouched (measured on poisoned objects; structural members\n    offsets/channels/Fs/arch/encoder_buffer/delay_compensation are not poisoned and are listed as kept) -/\n");
      printf("def encResetKeeps : List String := [");
      { int firstv = 1; for (k = 0; k < NF(ENCF); k++) if (ENCF[k].kind == 'I') { int s2, st2 = 0; for (s2 = 0; STRUCTURAL[s2]; s2++) if (!strcmp(STRUCTURAL[s2], ENCF[k].name)) st2 = 1;
           if (st2 || kept_e[k]) { printf("%s\"%s\"", firstv ? "" : ", ", ENCF[k].name); firstv = 0; } } }
      printf("]\ndef silkModeResetKeeps : List String := [");
      { int firstv = 1; for (k = 0; k < NF(SILKF); k++) if (kept_s[k]) { printf("%s\"%s\"", firstv ? "" : ", ", SILKF[k].name); firstv = 0; } }
      printf("]\ndef decResetKeeps : List String := [");
      { int firstv = 1; for (k = 0; k < NF(DECF); k++) if (DECF[k].kind == 'I') { int s2, st2 = 0; for (s2 = 0; STRUCTURAL[s2]; s2++) if (!strcmp(STRUCTURAL[s2], DECF[k].name)) st2 = 1;
           if (st2 || kept_d[k]) { printf("%s\"%s\"", firstv ? "" : ", ", DECF[k].name); firstv = 0; } } }
      printf("]\ndef decControlResetKeeps : List String := [");
      { int firstv = 1; for (k = 0; k < NF(SILKDF); k++) if (kept_ds[k]) { printf("%s\"%s\"", firstv ? "" : ", ", SILKDF[k].name); firstv = 0; } }
      printf("]\n");
   }
   printf("\nend Opus.Gen.StructFields\n");
   return 0;
}
