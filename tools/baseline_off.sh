#!/bin/sh
# Runs the repository's own test suite with the verification guard OFF, in a scratch build
# directory outside /repo and /verif (removed afterwards).  Usage: tools/baseline_off.sh [logfile]
set -e
D=$(mktemp -d /tmp/opus-baseline-XXXXXX)
LOG=${1:-/tmp/opus-baseline.log}
trap 'rm -rf "$D"' EXIT
cmake -G Ninja -S /repo -B "$D" -DCMAKE_BUILD_TYPE=RelWithDebInfo -DCMAKE_C_FLAGS=-Wno-error -DOPUS_BUILD_TESTING=ON -DOPUS_HARDENING=ON > "$LOG" 2>&1
cmake --build "$D" -j16 >> "$LOG" 2>&1
ctest --test-dir "$D" -j8 --timeout 1800 >> "$LOG" 2>&1
tail -5 "$LOG"
