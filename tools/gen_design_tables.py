#!/usr/bin/env python3
"""Rewrites the generated blocks of DESIGN.md (between <!-- GEN:x --> and <!-- /GEN:x -->) from the committed
evidence files, tools/props modules and seeded/*/meta.json, so that the record in DESIGN.md cannot drift."""
import glob, importlib, json, os, re, sys
V = os.path.dirname(os.path.dirname(os.path.abspath(__file__)))
sys.path.insert(0, os.path.join(V, 'tools'))

def props_block():
    out = []
    for i in range(1, 21):
        pid = 'C%02d' % i
        try:
            ev = json.load(open(os.path.join(V, 'evidence', pid + '.json')))
            import check as _check
            mod = _check.merge_extensions(importlib.import_module('props.' + pid))
        except Exception as e:
            out.append('#### %s\nno evidence (%s)\n' % (pid, e)); continue
        c = ev['coverage']
        names = [t['name'].split('.')[-1] for t in c.get('theorems', [])]
        out.append('#### %s — %d/%d theorems kernel-checked' % (pid, c['discharged'], c['obligations']))
        out.append('*Claim.* ' + mod.LEVEL_TEXT.strip())
        out.append('')
        groups = {}
        for t in c.get('theorems', []):
            parts = t['name'].split('.')
            groups.setdefault(parts[-2] if len(parts) > 1 else pid, []).append(parts[-1])
        for g, ns in groups.items():
            out.append('*Theorems (`lean/OpusProps/%s.lean`).* ' % g + ', '.join('`%s`' % n for n in ns) + '.')
            out.append('')
        out.pop()
        if c.get('partial_theorems'):
            out.append('')
            out.append('*Proved only in part.* ' + ', '.join('`%s`' % n.split('.')[-1] for n in c['partial_theorems']) + '.')
        if c.get('unproved_full_statements'):
            out.append('')
            out.append('*Stated but not proved (no obligation counted).*')
            out += ['* ' + re.sub(r'\s+', ' ', u) for u in c['unproved_full_statements']]
        if c.get('not_covered'):
            out.append('')
            out.append('*Not covered by any theorem (search / sanitizers only).*')
            out += ['* ' + re.sub(r'\s+', ' ', u) for u in c['not_covered']]
        out.append('')
        out.append('*Tie and search on the committed quick run.* %d correspondence cases, %d evaluations in all, %.0f s. Suites: %s.' % (
            c.get('traces_validated_against_impl', 0), c.get('evaluations', 0), ev['wall_s'],
            ', '.join('`%s` (%d)' % (t['suite'], t['cases']) for t in c.get('correspondence', [])) or '—'))
        out.append('')
    return '\n'.join(out)

def seeded_block():
    rows = ['| id | change | needs | quick check verdict |', '|----|--------|-------|---------------------|']
    n = det = 0
    for d in sorted(glob.glob(os.path.join(V, 'seeded', '*'))):
        mp = os.path.join(d, 'meta.json')
        if not os.path.exists(mp):
            rows.append('| %s | (confirmation pending) | | |' % os.path.basename(d)); continue
        m = json.load(open(mp)); n += 1
        cr = m['check_result']
        if cr.get('detected'):
            det += 1
            r = cr.get('replay', {})
            if r.get('kind') == 'counterexample':
                v = 'VIOLATION with concrete replay (suite `%s`)' % r.get('suite', '?')
            elif cr.get('violation_line') and 'no-failing-input-found' in cr['violation_line'][0]:
                v = 'VIOLATION, `no-failing-input-found` (broken obligation/correspondence named in the replay)'
            else:
                v = 'VIOLATION'
        else:
            v = '**missed**'
        if cr.get('history'):
            v += ' — ' + cr['history']
        if cr.get('note'):
            v += ' — ' + cr['note']
        rows.append('| %s | %s | %s | %s |' % (m['id'], m['change'].replace('|', '\\|'), m['needs_to_manifest'].replace('|', '\\|'), v))
    rows.append('')
    rows.append('%d confirmed seeded changes, %d detected by the quick tier of the property they were written against.' % (n, det))
    return '\n'.join(rows)

def fixed_block():
    k = json.load(open(os.path.join(V, 'known_findings.json')))
    rows = ['| commit | property | what failed (input / call site) |', '|--------|----------|----------------------------------|']
    for f in k.get('fixed', []):
        m = re.match(r'fixed: property=(\S+) (\S+) (.*)', f)
        if m:
            rows.append('| %s | %s | %s |' % (m.group(2), m.group(1), m.group(3).replace('|', '\\|')))
    rows.append('')
    rows.append('Recorded, not repaired (`findings`; the check prints `KNOWN-FINDING` and exits 0 for exactly these witnesses):')
    rows.append('')
    for f in k.get('findings', []):
        rows.append('* `%s` (%s): %s' % (f['id'], f['property'], f['what']))
    return '\n'.join(rows)


blocks = {'props': props_block, 'seeded': seeded_block, 'fixed': fixed_block}
p = os.path.join(V, 'DESIGN.md')
s = open(p).read()
for k, f in blocks.items():
    a, b = '<!-- GEN:%s -->' % k, '<!-- /GEN:%s -->' % k
    if a in s and b in s:
        s = s[:s.index(a) + len(a)] + '\n' + f() + '\n' + s[s.index(b):]
open(p, 'w').write(s)
print('DESIGN.md blocks regenerated')
