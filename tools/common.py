"""Shared machinery of /verif checks (DESIGN.md §2): library build from /repo's
working tree, harness compilation, Lean build / audit, evidence and verdicts."""
import atexit, fcntl, hashlib, json, os, re, shutil, subprocess, sys, tempfile, time

VERIF = os.path.dirname(os.path.dirname(os.path.abspath(__file__)))
REPO = os.environ.get('VERIF_REPO', '/repo')
LEAN = os.path.join(VERIF, 'lean')
CACHE = os.path.join(VERIF, '.cache')
HARNESS = os.path.join(VERIF, 'harness')
GUARD = 'XIPH_OPUS_VERIF'
ALLOWED_AXIOMS = {'propext', 'Classical.choice', 'Quot.sound'}
SRC_DIRS = ['celt', 'silk', 'src', 'include', 'cmake']
SRC_TOP = ['CMakeLists.txt', 'opus_sources.mk', 'celt_sources.mk', 'silk_sources.mk',
           'opus_headers.mk', 'celt_headers.mk', 'silk_headers.mk', 'lpcnet_sources.mk',
           'lpcnet_headers.mk', 'package_version']

_scratch = None


def scratch():
    """Per-run scratch directory outside /repo and /verif, removed at exit."""
    global _scratch
    if _scratch is None:
        _scratch = tempfile.mkdtemp(prefix='opusverif-')
        atexit.register(lambda: shutil.rmtree(_scratch, ignore_errors=True))
    return _scratch


def sh(cmd, cwd=None, timeout=None, env=None, input=None, check=False):
    e = dict(os.environ)
    if env:
        e.update(env)
    p = subprocess.run(cmd, cwd=cwd, timeout=timeout, env=e, input=input,
                       stdout=subprocess.PIPE, stderr=subprocess.STDOUT, text=True,
                       shell=isinstance(cmd, str))
    if check and p.returncode != 0:
        raise RuntimeError('command failed (%d): %s\n%s' % (p.returncode, cmd, p.stdout[-4000:]))
    return p.returncode, p.stdout


def sha256_file(path):
    h = hashlib.sha256()
    with open(path, 'rb') as f:
        for blk in iter(lambda: f.read(1 << 16), b''):
            h.update(blk)
    return h.hexdigest()


def repo_files():
    out = []
    for d in SRC_DIRS:
        for root, dirs, files in os.walk(os.path.join(REPO, d)):
            dirs.sort()
            for fn in sorted(files):
                if fn.endswith(('.c', '.h', '.cmake', '.txt', '.in', '.S', '.s')):
                    out.append(os.path.join(root, fn))
    for fn in SRC_TOP:
        p = os.path.join(REPO, fn)
        if os.path.exists(p):
            out.append(p)
    return out


_repo_hash = None


def repo_hash():
    """Content hash of every source file of /repo's working tree that the build can read."""
    global _repo_hash
    if _repo_hash is None:
        h = hashlib.sha256()
        for p in repo_files():
            h.update(os.path.relpath(p, REPO).encode())
            h.update(b'\0')
            with open(p, 'rb') as f:
                h.update(hashlib.sha256(f.read()).digest())
        _repo_hash = h.hexdigest()[:20]
    return _repo_hash


class Lock:
    def __init__(self, name):
        os.makedirs(CACHE, exist_ok=True)
        self.path = os.path.join(CACHE, name + '.lock')

    def __enter__(self):
        self.f = open(self.path, 'w')
        fcntl.flock(self.f, fcntl.LOCK_EX)
        return self

    def __exit__(self, *a):
        fcntl.flock(self.f, fcntl.LOCK_UN)
        self.f.close()


VARIANTS = {
    # name: (compiler, extra C flags, extra cmake args)
    'plain': ('cc', '-D%s' % GUARD, []),
    'san': ('cc', '-D%s -fsanitize=address,undefined -fno-sanitize-recover=all -fno-omit-frame-pointer' % GUARD, []),
    'assert': ('cc', '-D%s' % GUARD, ['-DOPUS_ASSERTIONS=ON']),
    'tsan': ('cc', '-D%s -fsanitize=thread' % GUARD, []),
    'nohook': ('cc', '', []),
    'fuzzing': ('cc', '-D%s' % GUARD, ['-DOPUS_FUZZING=ON']),
    # the library's own SIMD self-checks (OPUS_CHECK_ASM runs the C kernel next to every SIMD kernel and asserts equality)
    'checkasm': ('cc', '-D%s' % GUARD, ['-DOPUS_CHECK_ASM=ON', '-DOPUS_ASSERTIONS=ON']),
    # clang MemorySanitizer.  _FORTIFY_SOURCE must be off: MSan does not intercept __memset_chk, so with it every
    # OPUS_CLEAR target would count as uninitialised (false reports).  OFF comes after the base ON and wins.
    'msan': ('clang', '-D%s -fsanitize=memory -fsanitize-memory-track-origins -fno-omit-frame-pointer '
                      '-U_FORTIFY_SOURCE -D_FORTIFY_SOURCE=0' % GUARD, ['-DOPUS_FORTIFY_SOURCE=OFF']),
}


class Lib:
    """A libopus.a freshly built from /repo's working tree (cached by content hash)."""

    def __init__(self, d):
        self.dir = d
        self.a = os.path.join(d, 'libopus.a')
        meta = json.load(open(os.path.join(d, 'verif_meta.json')))
        self.defines = meta['defines']
        self.flags = meta['flags']
        self.includes = meta['includes']
        self.compiler = meta.get('compiler', 'cc')


def build_lib(variant='plain'):
    """Configure + build libopus from /repo's current working tree.  The result is cached
    under /verif/.cache keyed by the content hash of the tree, so an edited tree is rebuilt
    and an unchanged one is reused."""
    comp, cflags, cmargs = VARIANTS[variant]
    # the key covers the tree's content AND its location: the recorded -I paths point into REPO, so a
    # scratch copy with the same content as an already cached tree must not reuse that entry
    loc = '' if REPO == '/repo' else '-' + hashlib.sha256(os.path.abspath(REPO).encode()).hexdigest()[:8]
    key = '%s%s-%s' % (repo_hash(), loc, variant)
    d = os.path.join(CACHE, 'lib', key)
    with Lock('lib-' + variant):
        if os.path.exists(os.path.join(d, 'verif_meta.json')):
            os.utime(d)
            return Lib(d)
        shutil.rmtree(d, ignore_errors=True)
        os.makedirs(d)
        cmd = ['cmake', '-G', 'Ninja', '-S', REPO, '-B', d, '-DCMAKE_BUILD_TYPE=RelWithDebInfo',
               '-DCMAKE_C_COMPILER=' + comp, '-DCMAKE_C_FLAGS=-Wno-error ' + cflags,
               '-DOPUS_BUILD_TESTING=OFF', '-DOPUS_BUILD_PROGRAMS=OFF', '-DOPUS_HARDENING=ON',
               '-DOPUS_FORTIFY_SOURCE=ON', '-DOPUS_STACK_PROTECTOR=ON'] + cmargs
        rc, out = sh(cmd)
        if rc != 0:
            shutil.rmtree(d, ignore_errors=True)
            raise RuntimeError('cmake configure failed:\n' + out[-3000:])
        rc, out = sh(['cmake', '--build', d, '-j16', '--target', 'opus'])
        if rc != 0:
            shutil.rmtree(d, ignore_errors=True)
            raise RuntimeError('library build failed:\n' + out[-6000:])
        ninja = open(os.path.join(d, 'build.ninja')).read()
        m = re.search(r'build CMakeFiles/opus\.dir/src/opus\.c\.o:.*?\n((?:  .*\n)+)', ninja)
        blk = m.group(1)
        defines = re.search(r'DEFINES = (.*)', blk).group(1).split()
        flags = re.search(r'FLAGS = (.*)', blk).group(1).split()
        includes = re.search(r'INCLUDES = (.*)', blk).group(1).split()
        json.dump({'defines': defines, 'flags': flags, 'includes': includes, 'variant': variant,
                   'repo_hash': repo_hash(), 'compiler': comp}, open(os.path.join(d, 'verif_meta.json'), 'w'))
        # drop object files, keep the archive and generated headers
        shutil.rmtree(os.path.join(d, 'CMakeFiles'), ignore_errors=True)
        _prune_cache(os.path.join(CACHE, "lib"), keep=40)
        return Lib(d)


def _prune_cache(root, keep):
    try:
        ents = sorted((os.path.join(root, e) for e in os.listdir(root)), key=os.path.getmtime, reverse=True)
        for e in ents[keep:]:
            shutil.rmtree(e, ignore_errors=True)
    except OSError:
        pass


def cc_harness(lib, sources, out, extra=(), link_lib=True, opt='-O1', cxx=False):
    """Compile a harness TU with the library's own defines/includes (so that `#include "x.c"`
    sees the code exactly as the library build does)."""
    flags = [f for f in lib.flags if not f.startswith('-W') and f not in ('-O2',)]
    cmd = ['g++' if cxx else getattr(lib, 'compiler', 'cc')] + flags + [opt, '-w'] + lib.defines + lib.includes + \
          ['-I' + os.path.join(REPO, 'src'), '-I' + HARNESS] + list(extra) + list(sources) + ['-o', out]
    if link_lib:
        cmd += [lib.a]
    cmd += ['-lm']
    rc, outp = sh(cmd)
    if rc != 0:
        raise RuntimeError('harness compile failed: %s\n%s' % (' '.join(cmd), outp[-4000:]))
    return out


# ---------------------------------------------------------------- Lean side

def lake_build(targets, timeout=3000):
    with Lock('lake'):
        rc, out = sh(['lake', 'build'] + list(targets), cwd=LEAN, timeout=timeout)
    return rc == 0, out


def lean_errors(out):
    """Extract `file:line:col: error` messages with the declaration they belong to."""
    errs = []
    for m in re.finditer(r'error: ([^\s:]+\.lean):(\d+):(\d+): (.*(?:\n(?!(?:error|warning|info|trace|✖|✔|⚠)).*){0,12})', out):
        path, line = m.group(1), int(m.group(2))
        decl = None
        try:
            src = open(os.path.join(LEAN, path)).read().split('\n')
            for i in range(min(line, len(src)) - 1, -1, -1):
                mm = re.match(r'\s*(?:@\[[^\]]*\]\s*)?(?:private\s+|protected\s+)?(theorem|lemma|def|example|instance|abbrev)\s+(\S+)?', src[i])
                if mm:
                    decl = (mm.group(2) or mm.group(1))
                    break
        except OSError:
            pass
        errs.append({'file': path, 'line': line, 'decl': decl, 'message': m.group(4)[:1500]})
    return errs


FORBIDDEN = [r'\bsorry\b', r'\badmit\b', r'^\s*axiom\s', r'\bnative_decide\b', r'\bbv_decide\b',
             r'\bimplemented_by\b', r'\bunsafe\s', r'maxHeartbeats\s+0\b', r'\bextern\b\s*"']


def strip_lean_comments(src):
    out, i, depth, n = [], 0, 0, len(src)
    while i < n:
        if src.startswith('/-', i):
            depth += 1; i += 2; continue
        if depth and src.startswith('-/', i):
            depth -= 1; i += 2; continue
        if depth:
            if src[i] == '\n':
                out.append('\n')
            i += 1; continue
        if src.startswith('--', i):
            while i < n and src[i] != '\n':
                i += 1
            continue
        out.append(src[i]); i += 1
    return ''.join(out)


def import_closure(modules):
    """Files of this project (relative to lean/) reachable from `modules` through `import` lines."""
    seen, todo = [], list(modules)
    while todo:
        m = todo.pop()
        rel = m.replace('.', '/') + '.lean'
        if rel in seen or not os.path.exists(os.path.join(LEAN, rel)):
            continue
        seen.append(rel)
        for mm in re.finditer(r'^\s*(?:public\s+)?import\s+(?:all\s+)?([A-Za-z0-9_.]+)', open(os.path.join(LEAN, rel)).read(), re.M):
            if mm.group(1).split('.')[0] in ('OpusModel', 'OpusProofs', 'OpusProps'):
                todo.append(mm.group(1))
    return sorted(seen)


def grep_forbidden(modules=None, dirs=('OpusModel', 'OpusProofs', 'OpusProps')):
    """Forbidden constructs in the Lean sources a property depends on (the import closure of its
    modules; every file under `dirs` when no modules are given)."""
    hits = []
    if modules:
        files = [os.path.join(LEAN, r) for r in import_closure(modules)]
    else:
        files = []
        for d in dirs:
            for root, _, fns in os.walk(os.path.join(LEAN, d)):
                files += [os.path.join(root, fn) for fn in fns if fn.endswith('.lean')]
    for p in files:
        code = strip_lean_comments(open(p).read())
        # string literals cannot hide a tactic; ignore them
        code = re.sub(r'"(?:[^"\\]|\\.)*"', '""', code)
        for ln, text in enumerate(code.split('\n'), 1):
            for pat in FORBIDDEN:
                if re.search(pat, text):
                    hits.append('%s:%d: %s' % (os.path.relpath(p, LEAN), ln, text.strip()[:120]))
    return hits


AUDIT_TEMPLATE = '''import Lean
import %(imports)s
open Lean Elab Command
run_cmd do
  let env ← getEnv
  for modName in [%(mods)s] do
    let some idx := env.getModuleIdx? modName | throwError "module not found"
    for n in env.header.moduleData[idx]!.constNames do
      if n.isInternal then continue
      match env.find? n with
      | some (.thmInfo _) =>
        let axs ← collectAxioms n
        logInfo m!"THEOREM {n} AXIOMS {axs.toList}"
      | _ => pure ()
'''


def audit_axioms(modules):
    """#print axioms (via collectAxioms) for every theorem declared in the given modules."""
    src = AUDIT_TEMPLATE % {'imports': '\nimport '.join(modules),
                            'mods': ', '.join('`' + m for m in modules)}
    p = os.path.join(scratch(), 'audit_%s.lean' % '_'.join(m.split('.')[-1] for m in modules))
    open(p, 'w').write(src)
    rc, out = sh(['lake', 'env', 'lean', p], cwd=LEAN, timeout=1200)
    thms = []
    for m in re.finditer(r'THEOREM (\S+) AXIOMS \[(.*?)\]', out, re.S):
        if re.search(r'\.(eq_\d+|eq_def|congr_simp|sizeOf_spec|injEq|inj|match_\d+.*|proof_\d+)$', m.group(1)):
            continue   # compiler-generated equation lemmas etc., not property theorems
        axs = [a.strip() for a in m.group(2).replace('\n', ' ').split(',') if a.strip()]
        thms.append({'name': m.group(1), 'axioms': axs})
    return rc == 0, thms, out


def leanchecker(module):
    rc, out = sh(['lake', 'env', 'leanchecker', module], cwd=LEAN, timeout=3000)
    return rc == 0, out[-2000:]


# ---------------------------------------------------------------- model driver

def driver_path():
    return os.path.join(LEAN, '.lake', 'build', 'bin', 'opusmodel')


class TieResult:
    def __init__(self, name):
        self.name = name
        self.cases = 0
        self.mismatches = []   # dicts: input, impl, model
        self.n_mismatch = 0
        self.dist = {}
        self.samples = []
        self.notes = []
        self.error = None


def run_tie(name, harness_cmd, timeout=3000, env=None):
    """Pipe a harness' `I`/`O` stream into `opusmodel check`; collect disagreements."""
    res = TieResult(name)
    e = dict(os.environ)
    e.setdefault('ASAN_OPTIONS', 'detect_leaks=0:abort_on_error=0')
    e.setdefault('UBSAN_OPTIONS', 'print_stacktrace=1')
    if env:
        e.update(env)
    errf = open(os.path.join(scratch(), 'harness_%s.err' % re.sub(r'\W', '_', name)), 'w+')
    hp = subprocess.Popen(harness_cmd, stdout=subprocess.PIPE, stderr=errf, env=e)
    dp = subprocess.Popen([driver_path(), 'check'], stdin=hp.stdout, stdout=subprocess.PIPE, text=True)
    hp.stdout.close()
    try:
        out, _ = dp.communicate(timeout=timeout)
    except subprocess.TimeoutExpired:
        hp.kill(); dp.kill()
        res.error = 'timeout after %ds' % timeout
        return res
    hrc = hp.wait()
    errf.seek(0)
    herr = errf.read()
    cur = None
    for line in out.split('\n'):
        if line.startswith('MISMATCH'):
            cur = {}
            res.mismatches.append(cur)
        elif cur is not None and line.startswith('  I '):
            cur['input'] = line[4:]
        elif cur is not None and line.startswith('  impl:'):
            cur['impl'] = line[7:].strip()
        elif cur is not None and line.startswith('  model:'):
            cur['model'] = line[8:].strip(); cur = None
        elif line.startswith('SAMPLE '):
            res.samples.append(line[7:])
        elif line.startswith('DIST '):
            k, n = line[5:].rsplit(' ', 1)
            res.dist[k] = int(n)
        elif line.startswith('# '):
            res.notes.append(line[2:])
        elif line.startswith('SUMMARY'):
            m = re.match(r'SUMMARY cases=(\d+) mismatches=(\d+)', line)
            res.cases = int(m.group(1)); res.n_mismatch = int(m.group(2))
    trapped = any(l.startswith('O SANITIZER') or l.startswith('O ABORT') or l.startswith('O SIGSEGV')
                  for l in out.split('\n'))
    summ = [l for l in herr.split('\n') if l.startswith('SUMMARY:') or 'ERROR: AddressSanitizer' in l
            or 'runtime error' in l or re.match(r'\s+#[0-5] ', l)]
    res.sanitizer = summ[:12]
    for m in res.mismatches:
        if m.get('impl') in ('SANITIZER', 'ABORT', 'SIGSEGV'):
            m['sanitizer_report'] = summ[:12]
    if hrc != 0 and not (trapped or any(m.get('impl') in ('SANITIZER', 'ABORT', 'SIGSEGV') for m in res.mismatches)):
        res.error = 'harness exited with %d: %s' % (hrc, ('\n'.join(summ) or herr[-1500:]))
    if res.cases == 0 and res.error is None:
        res.error = 'no cases compared (driver output: %s; harness stderr: %s)' % (out[-500:], herr[-1500:])
    return res


def run_ties_parallel(specs, workers=8, timeout=3000):
    """Run several ties (name, harness_cmd) concurrently; results in the order given."""
    from concurrent.futures import ThreadPoolExecutor
    with ThreadPoolExecutor(max_workers=workers) as ex:
        return list(ex.map(lambda sp: run_tie(sp[0], sp[1], timeout=timeout), specs))


def model_eval(lines):
    """Evaluate input lines on the model; returns the list of answers."""
    p = subprocess.run([driver_path(), 'eval'], input='\n'.join(lines) + '\n', stdout=subprocess.PIPE, text=True)
    return p.stdout.split('\n')[:len(lines)]


# ---------------------------------------------------------------- verdicts

def load_known():
    p = os.path.join(VERIF, 'known_findings.json')
    if os.path.exists(p):
        return json.load(open(p))
    return {'findings': [], 'fixed': []}


OUT = os.environ.get('VERIF_OUT', VERIF)   # evidence/ and replays/ go here (seeded-change runs use a scratch dir)


def write_replay(prop, obj):
    os.makedirs(os.path.join(OUT, 'replays'), exist_ok=True)
    blob = json.dumps(obj, indent=1, sort_keys=True)
    name = '%s-%s.json' % (prop, hashlib.sha1(blob.encode()).hexdigest()[:12])
    path = os.path.join(OUT, 'replays', name)
    open(path, 'w').write(blob)
    return path


def write_evidence(prop, ev):
    os.makedirs(os.path.join(OUT, 'evidence'), exist_ok=True)
    p = os.path.join(OUT, 'evidence', prop + '.json')
    tmp = p + '.tmp'
    json.dump(ev, open(tmp, 'w'), indent=1)
    os.replace(tmp, p)


class SplitMix:
    """splitmix64 — the one PRNG behind every random choice (seeded from VERIF_SEED)."""
    M = (1 << 64) - 1

    def __init__(self, seed):
        self.s = seed & self.M

    def next(self):
        self.s = (self.s + 0x9E3779B97F4A7C15) & self.M
        z = self.s
        z = ((z ^ (z >> 30)) * 0xBF58476D1CE4E5B9) & self.M
        z = ((z ^ (z >> 27)) * 0x94D049BB133111EB) & self.M
        return z ^ (z >> 31)

    def below(self, n):
        return self.next() % n

    def choice(self, xs):
        return xs[self.below(len(xs))]
