#!/usr/bin/env python3
"""meta.py <seeded-dir> <property> <what-it-changes> <what-it-needs>: writes meta.json for a confirmed seeded change
from the logs left by tools/mut/confirm.sh."""
import json, os, re, sys
d, prop = sys.argv[1:3]
_old = json.load(open(os.path.join(d, 'meta.json'))) if os.path.exists(os.path.join(d, 'meta.json')) else {}
what = sys.argv[3] if len(sys.argv) > 3 else _old.get('change', '')
needs = sys.argv[4] if len(sys.argv) > 4 else _old.get('needs_to_manifest', '')
log = open(os.path.join(d, 'check.log')).read() if os.path.exists(os.path.join(d, 'check.log')) else ''
viol = re.findall(r'^VIOLATION.*$', log, re.M)
summ = re.findall(r'^%s tier=.*$' % prop, log, re.M)
rep = {}
rp = os.path.join(d, 'check', 'replay.json')
if os.path.exists(rp):
    o = json.load(open(rp))
    rep = {k: (str(o.get(k))[:400]) for k in ('kind', 'suite', 'input', 'expected', 'observed', 'why') if o.get(k) is not None}
    if o.get('no_longer_checks'):
        rep['no_longer_checks'] = [{k: str(v)[:300] for k, v in x.items() if k in ('kind', 'stage', 'theorem', 'suite', 'detail', 'lean_error', 'input')} for x in o['no_longer_checks'][:4]]
meta = {
    'id': os.path.basename(d.rstrip('/')), 'breaks_property': prop, 'change': what, 'needs_to_manifest': needs,
    'author': 'independent sub-agent given only the property text and a scratch worktree of /repo',
    'confirmed_by_coordinator': {
        'ran': 'tools/mut/confirm.sh %s seeded/%s  (patch applied to a copy of /repo HEAD; repository test suite; demo on clean and patched tree; tools/check.py %s --tier quick with VERIF_REPO=<patched copy>)' % (prop, os.path.basename(d.rstrip('/')), prop),
        'patch_applies': True, 'repo_test_suite_with_patch': 'all 5 ctest programs pass', 'demo_on_clean_tree': 'PASS (exit 0)',
        'demo_on_patched_tree': 'FAIL (exit non-zero)'},
    'check_result': {'detected': bool(viol), 'violation_line': [re.sub(r'replay=\S+', 'replay=<scratch>/replays/…', v) for v in viol[:1]],
                     'summary': summ[:1], 'replay': rep},
}
for k in ('history', 'note'):
    if k in _old.get('check_result', {}):
        meta['check_result'][k] = _old['check_result'][k]
if 'repo_test_suite_with_patch' in _old.get('confirmed_by_coordinator', {}) and 'passes in' in _old['confirmed_by_coordinator']['repo_test_suite_with_patch']:
    meta['confirmed_by_coordinator']['repo_test_suite_with_patch'] = _old['confirmed_by_coordinator']['repo_test_suite_with_patch']
if not viol and _old.get('check_result', {}).get('detected') is False and 'note' in _old.get('check_result', {}):
    meta['check_result'] = _old['check_result']      # cross-property catch recorded by hand: keep
json.dump(meta, open(os.path.join(d, 'meta.json'), 'w'), indent=1)
print(os.path.basename(d), 'detected' if viol else 'MISSED')
