#!/bin/sh
# confirm.sh <prop> <mutant-dir> [tier]: confirm a seeded change independently of the agent that wrote it, and
# run the property's check against it.  Uses a scratch copy of /repo (VERIF_REPO) so that /repo itself is not
# disturbed while other work is running; evidence/replays of the run go to a scratch dir (VERIF_OUT).
#   1. patch applies to a copy of /repo's HEAD tree   2. library + tests build, repository test suite passes
#   3. demo passes on the clean tree and fails on the patched tree   4. check reports VIOLATION on the patched tree
P=$1; M=$(cd "$2" && pwd); TIER=${3:-quick}
V=$(cd "$(dirname "$0")/../.." && pwd)
W=$(mktemp -d /tmp/seedrun-XXXXXX)
trap 'rm -rf "$W"' EXIT
git -C /repo archive HEAD | tar -x -C "$W" --one-top-level=clean
cp -r "$W/clean" "$W/mut"
if ! (cd "$W/mut" && git apply --unsafe-paths "$M/patch.diff" 2>/dev/null || patch -p1 -s < "$M/patch.diff"); then echo "RESULT apply=FAIL"; exit 2; fi
cmake -G Ninja -S "$W/mut" -B "$W/mut/_build" -DCMAKE_BUILD_TYPE=RelWithDebInfo -DCMAKE_C_FLAGS=-Wno-error -DOPUS_BUILD_TESTING=ON -DOPUS_HARDENING=ON > "$W/build.log" 2>&1 && cmake --build "$W/mut/_build" -j8 >> "$W/build.log" 2>&1 || { echo "RESULT apply=ok build=FAIL"; tail -20 "$W/build.log"; exit 2; }
if nice ctest --test-dir "$W/mut/_build" -j6 --timeout 1800 > "$W/ctest.log" 2>&1; then T=pass; else T=FAIL; fi
rm -rf "$W/mut/_build"
(cd "$M" && sh run.sh "$W/clean") > "$W/demo_clean.log" 2>&1; DC=$?
(cd "$M" && sh run.sh "$W/mut") > "$W/demo_mut.log" 2>&1; DM=$?
rm -rf "$W/clean/_build" "$W/mut/_build"
mkdir -p "$W/out"
# the check runs in a scratch copy of /verif (Lean build output included, library cache excluded): S0 regenerates
# lean/OpusModel/Gen/*.lean from the tree under test, and a mutated tree must never leak into the committed files
# VERIF_SNAPSHOT=<dir>: take the check from a clean snapshot of the committed /verif (used while other people edit /verif)
rsync -a --exclude .git --exclude '.cache/lib' --exclude replays "${VERIF_SNAPSHOT:-$V}/" "$W/verif/"
(cd "$W/verif" && VERIF_REPO="$W/mut" VERIF_OUT="$W/out" python3 tools/check.py $P --tier $TIER) > "$W/check.log" 2>&1; RC=$?
rm -rf "$W/verif"
echo "RESULT apply=ok build=ok ctest=$T demo_clean_rc=$DC demo_mut_rc=$DM check_rc=$RC"
grep -E "VIOLATION|KNOWN-FINDING| OK$| FAIL$" "$W/check.log"
grep -h "tests passed" "$W/ctest.log"
R=$(grep -o 'replay=[^ ]*' "$W/check.log" | head -1 | cut -d= -f2)
if [ -n "$R" ] && [ -f "$R" ]; then mkdir -p "$M/check"; cp "$R" "$M/check/replay.json"; fi
cp "$W/check.log" "$M/check.log" 2>/dev/null
tail -3 "$W/demo_mut.log"
