#!/usr/bin/env python3
"""Prints the brief for an independent mutation sub-agent for property Cxx (gets only the property text)."""
import json, sys, os
pid = sys.argv[1]
rnd = int(sys.argv[2]) if len(sys.argv) > 2 else 1
round2 = rnd >= 2
V = os.path.dirname(os.path.dirname(os.path.dirname(os.path.abspath(__file__))))
for l in open(os.path.join(V, 'properties.jsonl')):
    p = json.loads(l)
    if p['id'] == pid:
        break
excl = ''
first = 1
if round2:
    import glob
    done = []
    for mp in sorted(glob.glob(os.path.join(V, 'seeded', pid + '-m*', 'meta.json'))):
        done.append('  - ' + json.load(open(mp))['change'])
    first = len(done) + 1
    excl = ('\nThis is a later round. The following changes were already produced for this property; do NOT repeat them or close variants '
            '(same statement or same check in the same function) — go for different functions, mechanisms and clauses of the property:\n'
            + '\n'.join(done) + '\nNumber your mutants m' + str(first) + ', m' + str(first+1) + ', m' + str(first+2) + '.\n')
print(f'''You are helping to evaluate verification tooling for libopus (xiph/opus, the reference C implementation of the Opus audio codec). You have your own scratch git worktree of the repository at /tmp/mut-{pid} . Work ONLY there and in /tmp/mut-{pid}-out . Do not read, list or touch /verif or /repo (your result must be independent of any existing verification machinery).

Here is a semantic property the library is supposed to satisfy:

TITLE: {p['title']}
STATEMENT: {p['statement']}
QUANTIFIER: {p['quantifier']['text']}

Task: produce up to 3 independent, realistic source changes to the library (bugs a developer could plausibly introduce or a refactor gone subtly wrong: an off-by-one in a bound, a dropped or weakened check, a changed table entry or constant, a wrong clamp, a reordered statement, a stale state field, two cooperating sites that each look fine alone, ...) each of which BREAKS this property while
 (a) the library and its tests still compile,
 (b) the repository's own test suite still passes completely:
     cmake -G Ninja -S /tmp/mut-{pid} -B /tmp/mut-{pid}/_build -DCMAKE_BUILD_TYPE=RelWithDebInfo -DCMAKE_C_FLAGS=-Wno-error -DOPUS_BUILD_TESTING=ON -DOPUS_HARDENING=ON && cmake --build /tmp/mut-{pid}/_build -j8 && nice -n 10 ctest --test-dir /tmp/mut-{pid}/_build -j6 --timeout 1800
     (about 10-15 minutes; every test must pass; you may run the fast tests first while iterating but the full suite must pass for the final patch), and
 (c) it needs something specific to manifest — a particular input, a multi-step sequence of operations, an unusual configuration, a particular history or interleaving — not something that ordinary use or a smoke test would expose at once.
Prefer changes in different functions / mechanisms so the mutants are diverse, and prefer subtle ones.{excl} Changes must be to library source under celt/, silk/, src/ or include/ (not to tests, not to the build system).

For each mutant k = {first}..{first+2} write into /tmp/mut-{pid}-out/m<k>/ :
  patch.diff  — `git diff` against HEAD; must apply to a clean checkout with `git apply patch.diff`
  demo.c      — a small self-contained C program (uses only the public API in include/ unless an internal header is needed; then say which -I flags) that checks the property on the specific triggering input: exits 0 and prints PASS when the property holds, exits non-zero and prints FAIL with details when it is violated
  run.sh      — `sh run.sh <repo-dir>`: builds libopus from <repo-dir> into a temporary build dir under /tmp, compiles demo.c against it, runs it, removes the build dir; exit status = demo's
  README.md   — what was changed, why it breaks the property, exactly what is needed to make it manifest, the ctest summary line with the patch applied, and the demo's output with and without the patch
Verify yourself: demo PASSES on the clean worktree and FAILS with the patch; full test suite passes with the patch. Reset the worktree between mutants (`git -C /tmp/mut-{pid} checkout -- .`). When finished leave the worktree clean (no patch applied) and delete /tmp/mut-{pid}/_build and any other build output. A mutant you could not fully verify must be dropped, not reported.

Final answer: one line per mutant (file/function changed, trigger), nothing else.''')
