#!/bin/sh
# intake.sh <prop> <agent-out-dir> <k> "<change>" "<needs>": copy mutant m<k> written by a mutation agent into
# seeded/<prop>-m<k>/, confirm it independently (tools/mut/confirm.sh) and write meta.json.  A mutant that fails
# confirmation (patch does not apply / suite fails / demo does not discriminate) is removed again.
P=$1; O=$2; K=$3; WHAT=$4; NEEDS=$5
V=$(cd "$(dirname "$0")/../.." && pwd); cd "$V"
D=seeded/$P-m$K
mkdir -p $D && cp $O/m$K/patch.diff $O/m$K/demo.c $O/m$K/run.sh $O/m$K/README.md $D/ 2>/dev/null
R=$(sh tools/mut/confirm.sh $P $D 2>&1); echo "$R" | grep -E "^RESULT|VIOLATION| OK$| FAIL$" 
case "$R" in
  *"ctest=pass demo_clean_rc=0 demo_mut_rc=0"*|*apply=FAIL*|*build=FAIL*|*ctest=FAIL*) echo "$P-m$K NOT CONFIRMED: dropped"; rm -rf $D; exit 1;;
esac
case "$R" in *"demo_clean_rc=0 demo_mut_rc="[1-9]*) ;; *) echo "$P-m$K NOT CONFIRMED (demo on clean tree fails): dropped"; rm -rf $D; exit 1;; esac
python3 tools/mut/meta.py $D $P "$WHAT" "$NEEDS"
rm -f $D/check.log
