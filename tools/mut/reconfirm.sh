#!/bin/sh
# reconfirm.sh <prop>...: re-run every seeded change of the given properties against the current checks and refresh
# meta.json (keeps change / needs / history text).  Prints one line per change.
V=$(cd "$(dirname "$0")/../.." && pwd); cd "$V"
for P in "$@"; do
  for D in seeded/$P-m*; do
    [ -f "$D/patch.diff" ] || continue
    R=$(sh tools/mut/confirm.sh $P $D 2>&1 | grep -E "^RESULT" | head -1)
    case "$R" in *apply=FAIL*|"") echo "$(basename $D) $R (patch does not apply to the current HEAD: meta.json left as recorded)"; rm -f $D/check.log; continue;; esac
    python3 tools/mut/meta.py $D $P > /tmp/reconf_meta.$$ 2>&1
    echo "$(basename $D) $R $(cat /tmp/reconf_meta.$$ | tail -1)"
    rm -f $D/check.log /tmp/reconf_meta.$$
  done
done
