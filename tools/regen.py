"""regen.py — S0: regenerate OpusModel/Gen/*.lean from /repo's current sources.

Each generator is a small C translation unit (tools/extract/<name>.c) compiled with the
library's own defines and include paths; it `#include`s the .c file that holds a static
table and prints a complete Lean module.  Going through the compiler (not a regex) makes
re-formatting of a table harmless, while any changed value changes the Lean file, whose
theorems are then re-checked by `lake build`."""
import os, hashlib
import common


def regen(ctx, names):
    info = {}
    if not names:
        return info
    lib = ctx.lib('plain')
    gdir = os.path.join(common.LEAN, 'OpusModel', 'Gen')
    os.makedirs(gdir, exist_ok=True)
    for name in names:
        src = os.path.join(common.VERIF, 'tools', 'extract', name + '.c')
        exe = os.path.join(common.scratch(), 'extract_' + name)
        common.cc_harness(lib, [src], exe, link_lib=True, opt='-O0')
        rc, out = common.sh([exe])
        if rc != 0 or 'namespace' not in out:
            raise RuntimeError('extractor %s failed (rc=%d): %s' % (name, rc, out[-1000:]))
        dst = os.path.join(gdir, name + '.lean')
        with common.Lock('lake'):
            old = open(dst).read() if os.path.exists(dst) else None
            if old != out:
                open(dst, 'w').write(out)
        info[name] = {'sha256': hashlib.sha256(out.encode()).hexdigest()[:16], 'changed': old != out,
                      'bytes': len(out)}
    return info


if __name__ == '__main__':
    import sys
    sys.path.insert(0, os.path.dirname(os.path.abspath(__file__)))
    from check import Ctx
    print(regen(Ctx('regen', 'quick', 1), sys.argv[1:]))
