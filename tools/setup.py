#!/usr/bin/env python3
"""setup_cmd: build the Lean project (models, proofs, property theorems of every enabled check, driver)
from files on disk.  Offline; no network, no Mathlib `require`."""
import importlib, os, subprocess, sys
here = os.path.dirname(os.path.abspath(__file__))
sys.path.insert(0, here)
lean = os.path.join(os.path.dirname(here), 'lean')
targets = ['opusmodel']
for pid in open(os.path.join(here, 'props', 'ENABLED')).read().split():
    targets += importlib.import_module('props.' + pid).LEAN_MODULES
os.makedirs(os.path.join(os.path.dirname(here), '.cache'), exist_ok=True)
rc = subprocess.call(['lake', 'build'] + sorted(set(targets)), cwd=lean)
sys.exit(rc)
