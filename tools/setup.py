#!/usr/bin/env python3
"""setup_cmd: build the Lean project (models, proofs, property theorems of every enabled check, driver)
from files on disk.  Offline; no network, no Mathlib `require`.

The driver and each property's modules are built as separate lake invocations so that one property whose
proofs no longer elaborate cannot prevent the others from being built: its own check then reports the broken
obligation (S1), and every other check runs normally.  Exit status is 0 unless lake itself cannot run."""
import importlib, os, subprocess, sys
here = os.path.dirname(os.path.abspath(__file__))
sys.path.insert(0, here)
lean = os.path.join(os.path.dirname(here), 'lean')
os.makedirs(os.path.join(os.path.dirname(here), '.cache'), exist_ok=True)


def build(targets):
    return subprocess.call(['lake', 'build'] + sorted(set(targets)), cwd=lean)


failed = []
if build(['opusmodel']) != 0:
    failed.append('opusmodel (driver)')
allmods = []
for pid in open(os.path.join(here, 'props', 'ENABLED')).read().split():
    try:
        m = importlib.import_module('props.' + pid)
        mods = list(m.LEAN_MODULES)
        for e in getattr(m, 'EXTENSIONS', []):      # extension slices (tools/EXT_BRIEF.md)
            mods += [x for x in importlib.import_module('props.' + e).LEAN_MODULES if x not in mods]
        allmods.append((pid, mods))
    except Exception as e:       # a broken props module must not stop the others either
        failed.append('%s (tools/props: %s)' % (pid, e))
# one invocation for everything is fastest; fall back to per-property builds when it fails
if build([m for _, ms in allmods for m in ms]) != 0:
    for pid, ms in allmods:
        if build(ms) != 0:
            failed.append('%s %s' % (pid, ms))
if failed:
    print('setup: the following targets did not build (their checks will report it): ' + '; '.join(failed))
sys.exit(0)
