#!/usr/bin/env python3
"""setup_cmd: build the Lean project (models, proofs, property theorems, driver) from files on disk."""
import os, subprocess, sys
here = os.path.dirname(os.path.abspath(__file__))
lean = os.path.join(os.path.dirname(here), 'lean')
rc = subprocess.call(['lake', 'build'], cwd=lean)
sys.exit(rc)
