#!/usr/bin/env python3
"""Writes /verif/MANIFEST.json from the per-property modules in tools/props/ (single source of truth)."""
import importlib, json, os, sys
sys.path.insert(0, os.path.dirname(os.path.abspath(__file__)))
VERIF = os.path.dirname(os.path.dirname(os.path.abspath(__file__)))
ALL = ['C%02d' % i for i in range(1, 21)]
checks, na = [], []
ENABLED = open(os.path.join(VERIF, 'tools', 'props', 'ENABLED')).read().split()
for pid in ALL:
    try:
        if pid not in ENABLED:
            raise ModuleNotFoundError(pid)
        m = importlib.import_module('props.' + pid)
        import check as _check
        m = _check.merge_extensions(m)
    except ModuleNotFoundError:
        na.append({'property_id': pid, 'reason': 'check not built yet in this round (planned in DESIGN.md §7.%s); not claimed' % pid})
        continue
    checks.append({
        'property_id': pid,
        'quick_cmd': 'python3 tools/check.py %s --tier quick' % pid,
        'thorough_cmd': 'python3 tools/check.py %s --tier thorough' % pid,
        'evidence_file': 'evidence/%s.json' % pid,
        'replay_cmd_template': 'python3 tools/check.py %s --replay {path}' % pid,
        'engine': 'lean4-proof+correspondence',
        'level_claimed': {'category': 'proof', 'text': m.LEVEL_TEXT, 'design_ref': 'DESIGN.md §7.%s' % pid},
        'level_note': m.LEVEL_NOTE,
        'technique': m.TECHNIQUE,
    })
man = {
    'version': 1,
    'setup_cmd': 'python3 tools/setup.py',
    'hooks': {
        'guard': 'XIPH_OPUS_VERIF',
        'enable': 'checks configure /repo with cmake -DCMAKE_C_FLAGS="-DXIPH_OPUS_VERIF ..." into /verif/.cache/lib/<tree-hash>-<variant> (see tools/common.py build_lib)',
        'baseline_off_cmd': 'cmake -G Ninja -S /repo -B /repo/_build && cmake --build /repo/_build && ctest --test-dir /repo/_build -j8 --timeout 900',
        'source_commits': json.load(open(os.path.join(VERIF, 'hooks.json')))['source_commits'] if os.path.exists(os.path.join(VERIF, 'hooks.json')) else [],
        'add_only': True,
    },
    'engines': [{
        'name': 'lean4-proof+correspondence', 'path': 'tools/check.py',
        'serves_properties': [c['property_id'] for c in checks],
        'kind_free_text': 'Lean 4 models (lean/OpusModel) with kernel-checked property theorems (lean/OpusProps), tables regenerated from /repo on every run (tools/regen.py), differential correspondence of the compiled model driver against the freshly built library (harness/*.c), witness search on the implementation',
    }],
    'checks': checks,
    'not_applicable': na,
    'notes': 'Every check rebuilds libopus from /repo\'s working tree (content-hash keyed cache under /verif/.cache), rebuilds the Lean targets, audits axioms, runs the correspondence suites and the witness search. See DESIGN.md.',
}
json.dump(man, open(os.path.join(VERIF, 'MANIFEST.json'), 'w'), indent=1)
print('checks:', [c['property_id'] for c in checks], 'not_applicable:', len(na))
