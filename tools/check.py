#!/usr/bin/env python3
"""check.py Cxx [--tier quick|thorough] [--replay file]

Verdict logic of every check (DESIGN.md §2.2):
  S0 regenerate tables/constants from /repo      S1 lake build (kernel-checks the theorems)
  S2 audit (forbidden tokens, axioms)             S3 correspondence model vs. implementation
  S4 witness search on the implementation
"""
import argparse, importlib, json, os, sys, time, traceback

sys.path.insert(0, os.path.dirname(os.path.abspath(__file__)))
import common
from common import VERIF


def main():
    ap = argparse.ArgumentParser()
    ap.add_argument('prop')
    ap.add_argument('--tier', default='quick')
    ap.add_argument('--replay')
    a = ap.parse_args()
    tier = os.environ.get('VERIF_TIER') or a.tier
    if tier not in ('quick', 'thorough'):
        tier = 'quick'
    seed = int(os.environ.get('VERIF_SEED') or 1)
    prop = a.prop
    t0 = time.time()
    mod = merge_extensions(importlib.import_module('props.' + prop))
    ctx = Ctx(prop, tier, seed)
    if a.replay:
        return replay(ctx, mod, a.replay)

    problems = []    # obligations / correspondences that no longer check
    witnesses = []   # concrete inputs on which the implementation contradicts the property
    theorems = []
    ties = []
    search = None
    notes = []

    # ---- S0 regenerate
    try:
        import regen
        gen_info = regen.regen(ctx, getattr(mod, 'GEN', []))
        if hasattr(mod, 'pre_build'):
            gen_info.update(mod.pre_build(ctx) or {})
    except Exception as e:
        gen_info = {}
        problems.append({'kind': 'broken-obligation', 'stage': 'S0-regen',
                         'detail': 'regeneration of tables from /repo failed: %s' % str(e)[-2000:]})

    # ---- S1 build
    ok_drv, out = common.lake_build(['opusmodel'])
    if not ok_drv:
        errs = common.lean_errors(out)
        problems.append({'kind': 'broken-obligation', 'stage': 'S1-model',
                         'detail': 'the executable model no longer builds (a regenerated table or constant '
                                   'breaks a definition)', 'lean_errors': errs or out[-3000:]})
    ok_props, out = common.lake_build(mod.LEAN_MODULES)
    if not ok_props:
        errs = common.lean_errors(out)
        for e in errs[:10]:
            problems.append({'kind': 'broken-obligation', 'stage': 'S1-proof', 'theorem': e['decl'],
                             'file': e['file'], 'line': e['line'], 'lean_error': e['message']})
        if not errs:
            problems.append({'kind': 'broken-obligation', 'stage': 'S1-proof', 'detail': out[-3000:]})

    # ---- S2 audit
    forb = common.grep_forbidden(mod.LEAN_MODULES)
    if forb:
        problems.append({'kind': 'broken-obligation', 'stage': 'S2-audit',
                         'detail': 'forbidden construct in Lean sources', 'hits': forb[:20]})
    if ok_props:
        ok_a, theorems, aout = common.audit_axioms(mod.LEAN_MODULES)
        if not ok_a or not theorems:
            problems.append({'kind': 'broken-obligation', 'stage': 'S2-audit',
                             'detail': 'axiom audit failed: ' + aout[-1500:]})
        for t in theorems:
            bad = [x for x in t['axioms'] if x not in common.ALLOWED_AXIOMS]
            if bad:
                problems.append({'kind': 'broken-obligation', 'stage': 'S2-audit', 'theorem': t['name'],
                                 'detail': 'depends on disallowed axioms %s' % bad})
        required = getattr(mod, 'REQUIRED_THEOREMS', [])
        have = {t['name'] for t in theorems}
        for r in required:
            if r not in have:
                problems.append({'kind': 'broken-obligation', 'stage': 'S2-audit', 'theorem': r,
                                 'detail': 'required property theorem is missing from the build'})
        if tier == 'thorough':
            for m in mod.LEAN_MODULES:
                okc, cout = common.leanchecker(m)
                notes.append('leanchecker %s: %s' % (m, 'ok' if okc else 'FAILED'))
                if not okc:
                    problems.append({'kind': 'broken-obligation', 'stage': 'S2-leanchecker',
                                     'detail': cout})

    # ---- S3 correspondence
    if ok_drv and hasattr(mod, 'ties'):
        try:
            for tr in mod.ties(ctx):
                ties.append(tr)
                if tr.error:
                    problems.append({'kind': 'broken-correspondence', 'suite': tr.name, 'detail': tr.error})
                for mm in tr.mismatches[:10]:
                    w = mod.classify(ctx, tr, mm) if hasattr(mod, 'classify') else None
                    if w:
                        witnesses.append(w)
                    else:
                        problems.append({'kind': 'broken-correspondence', 'suite': tr.name, **mm})
        except Exception as e:
            problems.append({'kind': 'broken-correspondence', 'detail': 'tie crashed: ' + traceback.format_exc()[-3000:]})

    # ---- S4 witness search on the implementation
    if hasattr(mod, 'search'):
        try:
            search = mod.search(ctx)
            witnesses.extend(search.get('witnesses', []))
        except Exception as e:
            problems.append({'kind': 'broken-correspondence', 'detail': 'witness search crashed: ' + traceback.format_exc()[-3000:]})

    # ---- verdict
    known = common.load_known()
    matched, unknown = [], []
    import re
    for w in witnesses:
        hit = None
        for k in known.get('findings', []):
            if k['property'] != prop:
                continue
            mt = k.get('match', {})
            if mt.get('suite') and mt['suite'] != w.get('suite'):
                continue
            if mt.get('input_regex') and not re.search(mt['input_regex'], w.get('input', '')):
                continue
            hit = k
            break
        (matched if hit else unknown).append((w, hit))
    seen = set()
    for w, k in matched:
        if k['id'] not in seen:
            seen.add(k['id'])
            print('KNOWN-FINDING: property=%s %s' % (prop, k['what']))
    rc = 0
    if unknown:
        rc = 1
        w = unknown[0][0]
        path = common.write_replay(prop, {
            'property': prop, 'kind': 'counterexample', 'seed': seed, 'tier': tier, **w,
            'other_witnesses': [u[0] for u in unknown[1:6]], 'broken': problems[:5],
            'reproduce': 'python3 tools/check.py %s --replay <this file>' % prop})
        print('VIOLATION property=%s replay=%s' % (prop, path))
    elif problems:
        rc = 1
        path = common.write_replay(prop, {
            'property': prop, 'kind': problems[0]['kind'], 'seed': seed, 'tier': tier,
            'no_longer_checks': problems[:10],
            'search': {k: v for k, v in (search or {}).items() if k != 'witnesses'},
            'note': 'no concrete failing input was found on the implementation; the named theorem / '
                    'correspondence no longer checks, so the property is no longer shown to hold',
            'reproduce': 'python3 tools/check.py %s --tier %s' % (prop, tier)})
        print('VIOLATION property=%s replay=%s no-failing-input-found' % (prop, path))

    # ---- evidence
    good = [t for t in theorems if all(x in common.ALLOWED_AXIOMS for x in t['axioms'])]
    n_obl = len(theorems) if ok_props else max(1, len(getattr(mod, 'REQUIRED_THEOREMS', [])) or 1)
    n_dis = len(good) if ok_props else 0
    cases = sum(t.cases for t in ties)
    dist = {}
    for t in ties:
        dist.update({'%s/%s' % (t.name, k): v for k, v in t.dist.items()})
    samples = []
    for t in ties:
        samples.extend(t.samples[:3])
    samples.extend((search or {}).get('samples', [])[:3])
    samples.extend('theorem ' + t['name'] for t in theorems[:3])
    sources = {}
    for p in getattr(mod, 'SOURCES', []):
        fp = os.path.join(common.REPO, p)
        if os.path.exists(fp):
            sources[p] = common.sha256_file(fp)
    ev = {
        'property_id': prop, 'tier': tier, 'seed': seed, 'level': 'proof',
        'coverage': {
            'obligations': max(n_obl, 1), 'discharged': n_dis,
            'checker_cmd': 'cd lean && lake build %s  # then collectAxioms on every theorem of those modules'
                           % ' '.join(mod.LEAN_MODULES),
            'trusted_base': TRUSTED + list(getattr(mod, 'TRUSTED', [])),
            'theorems': theorems,
            'partial_theorems': [t['name'] for t in theorems if t['name'].endswith('_partial')],
            'unproved_full_statements': list(getattr(mod, 'UNPROVED', [])),
            'not_covered': list(getattr(mod, 'NOT_COVERED', [])),
            'traces_validated_against_impl': cases,
            'evaluations': cases + int((search or {}).get('cases', 0)),
            'distinct_nontrivial': sum(1 for k in dist) + int((search or {}).get('distinct', 0)),
            'rule': getattr(mod, 'RULE', ''),
            'samples': samples[:12],
            'distribution': dist,
            'correspondence': [{'suite': t.name, 'cases': t.cases, 'mismatches': t.n_mismatch,
                                'notes': t.notes[:20], 'error': t.error} for t in ties],
            'search': {k: v for k, v in (search or {}).items() if k not in ('witnesses', 'samples')},
            'regenerated': gen_info,
            'sources': sources,
            'repo_tree_hash': common.repo_hash(),
            'known_findings_matched': sorted(seen),
            'notes': notes,
        },
        'assumptions': list(getattr(mod, 'ASSUMPTIONS', [])),
        'wall_s': round(time.time() - t0, 2),
        'violations': (len(unknown) if unknown else (1 if problems else 0)),
    }
    common.write_evidence(prop, ev)
    print('%s tier=%s seed=%d theorems=%d/%d correspondence_cases=%d search_cases=%s wall=%.1fs %s' % (
        prop, tier, seed, n_dis, n_obl, cases, (search or {}).get('cases', 0), time.time() - t0,
        'OK' if rc == 0 else 'FAIL'))
    return rc


TRUSTED = [
    'Lean 4.33 kernel (thorough tier: plus leanchecker re-check of the .olean files)',
    'axioms allowed in property theorems: propext, Classical.choice, Quot.sound only; no sorry/admit/own '
    'axiom/native_decide/bv_decide/implemented_by/unsafe (grep + collectAxioms audit on every run)',
    'tools/regen.py + tools/extract/*.c: print the constant tables the C compiler sees into OpusModel/Gen/*.lean',
    'correspondence harness (harness/*.c), the line protocol and the Lean driver\'s parser/printer',
    'gcc, the sanitizers, cmake/ninja used to build /repo\'s working tree for the harness',
]


class Merged:
    """A property module together with the extension modules it lists under EXTENSIONS (tools/EXT_BRIEF.md):
    list-valued attributes are concatenated (parent first), pre_build / ties / search run for every part, and a
    mismatch is classified by the part whose tie produced it.  Everything an extension reports is reported under the
    parent's property id."""
    LISTS = ('LEAN_MODULES', 'GEN', 'SOURCES', 'REQUIRED_THEOREMS', 'UNPROVED', 'NOT_COVERED', 'ASSUMPTIONS', 'TRUSTED')

    def __init__(self, parent, exts):
        self.parts = [parent] + exts
        self.parent = parent
        for a in self.LISTS:
            out = []
            for m in self.parts:
                for x in getattr(m, a, []):
                    if x not in out:
                        out.append(x)
            setattr(self, a, out)
        self.RULE = ' || '.join(x for x in [getattr(parent, 'RULE', '')] +
                                ['[%s] %s' % (m.__name__.split('.')[-1], getattr(m, 'RULE', '')) for m in exts] if x)
        for a in ('LEVEL_TEXT', 'LEVEL_NOTE', 'TECHNIQUE'):
            if hasattr(parent, a):
                setattr(self, a, getattr(parent, a))
        # the claim of the property = the parent's claim + what each extension slice adds
        add = ['[%s] %s' % (m.__name__.split('.')[-1], m.LEVEL_TEXT) for m in exts if getattr(m, 'LEVEL_TEXT', '')]
        if add and hasattr(parent, 'LEVEL_TEXT'):
            self.LEVEL_TEXT = parent.LEVEL_TEXT + ' || Extension slices: ' + ' || '.join(add)
        addn = ['[%s] %s' % (m.__name__.split('.')[-1], m.LEVEL_NOTE) for m in exts if getattr(m, 'LEVEL_NOTE', '')]
        if addn and hasattr(parent, 'LEVEL_NOTE'):
            self.LEVEL_NOTE = parent.LEVEL_NOTE + ' || ' + ' || '.join(addn)
        if any(hasattr(m, 'pre_build') for m in self.parts):
            self.pre_build = self._pre_build
        if any(hasattr(m, 'ties') for m in self.parts):
            self.ties = self._ties
        if any(hasattr(m, 'search') for m in self.parts):
            self.search = self._search
        self.classify = self._classify
        if hasattr(parent, 'replay'):
            self.replay = parent.replay

    def _pre_build(self, ctx):
        info = {}
        for m in self.parts:
            if hasattr(m, 'pre_build'):
                info.update(m.pre_build(ctx) or {})
        return info

    def _ties(self, ctx):
        out = []
        for m in self.parts:
            if hasattr(m, 'ties'):
                for tr in m.ties(ctx):
                    tr._owner = m
                    out.append(tr)
        return out

    def _classify(self, ctx, tr, mm):
        m = getattr(tr, '_owner', self.parent)
        return m.classify(ctx, tr, mm) if hasattr(m, 'classify') else None

    def _search(self, ctx):
        res = None
        for m in self.parts:
            if not hasattr(m, 'search'):
                continue
            r = m.search(ctx) or {}
            if res is None:
                res = dict(r)
                res['witnesses'] = list(r.get('witnesses', []))
                res['samples'] = list(r.get('samples', []))
                continue
            tag = m.__name__.split('.')[-1]
            res['cases'] = int(res.get('cases', 0)) + int(r.get('cases', 0))
            res['distinct'] = int(res.get('distinct', 0)) + int(r.get('distinct', 0))
            res['witnesses'].extend(r.get('witnesses', []))
            res['samples'].extend(r.get('samples', [])[:2])
            for k, v in r.items():
                if k not in ('cases', 'distinct', 'witnesses', 'samples'):
                    res['%s.%s' % (tag, k)] = v
        return res


def merge_extensions(mod):
    names = getattr(mod, 'EXTENSIONS', [])
    if not names:
        return mod
    return Merged(mod, [importlib.import_module('props.' + n) for n in names])


class Ctx:
    def __init__(self, prop, tier, seed):
        self.prop, self.tier, self.seed = prop, tier, seed
        self.quick = tier == 'quick'
        self._libs = {}

    def lib(self, variant='plain'):
        if variant not in self._libs:
            self._libs[variant] = common.build_lib(variant)
        return self._libs[variant]

    def harness(self, name, sources, variant='plain', extra=(), link_lib=True, opt='-O1'):
        lib = self.lib(variant)
        out = os.path.join(common.scratch(), '%s_%s' % (name, variant))
        if not os.path.exists(out):
            common.cc_harness(lib, [os.path.join(common.HARNESS, s) for s in sources], out,
                              extra=extra, link_lib=link_lib, opt=opt)
        return out


def replay(ctx, mod, path):
    obj = json.load(open(path))
    if hasattr(mod, 'replay'):
        return mod.replay(ctx, obj)
    print('replay: re-running the check that produced %s' % path)
    os.execv(sys.executable, [sys.executable, os.path.abspath(__file__), ctx.prop, '--tier', obj.get('tier', 'quick')])


if __name__ == '__main__':
    sys.exit(main())
